#!/usr/bin/env python3
"""API-level replay for the header protocol harnesses (headers::c14_headers_*, header_box::*).

Scenario diffs are rendered by the REAL binary built from the tree under test and the file headers
/ hunk-header boxes are read back:
  * every file section gets exactly one file header, built from its own paths (rename with and
    without changes, plain modification, mode-only section followed by another section, added and
    removed files);
  * every hunk-header box shows `<path of the file the hunk belongs to>:<start of the hunk in the
    new file>` (renamed file, pure deletion with -U0, removed file, added file).
usage: file_and_hunk_headers.py <tree> <outdir>   exit 1 = violation reproduced on the real binary"""
import fcntl, os, re, subprocess, sys

tree, outdir = sys.argv[1], sys.argv[2]
os.makedirs(outdir, exist_ok=True)
BUILD = os.environ.get("VERIF_BUILD", "/verif/.build")
target = os.path.join(BUILD, "native-target")
os.makedirs(BUILD, exist_ok=True)
env = dict(os.environ, CARGO_TARGET_DIR=target, CARGO_NET_OFFLINE="true", RUST_BACKTRACE="0")
with open(os.path.join(BUILD, "native.lock"), "w") as lk:
    fcntl.flock(lk, fcntl.LOCK_EX)
    src = os.path.join(BUILD, "native-src")
    subprocess.run(["rsync", "-a", "--delete", "--exclude", "/target", "--exclude", "/.git", "--exclude", "/verif_harness", tree.rstrip("/") + "/", src + "/"], check=True)
    subprocess.run("find src build.rs Cargo.toml -type f -exec touch {} + 2>/dev/null", shell=True, cwd=src)
    b = subprocess.run(["cargo", "build", "--offline", "-q"], cwd=src, env=env, capture_output=True, text=True)
    if b.returncode != 0:
        open(os.path.join(outdir, "api_replay_build.log"), "w").write(b.stderr)
        print("api replay: build failed")
        sys.exit(2)
    exe = os.path.join(outdir, "delta-under-test")
    subprocess.run(["cp", os.path.join(target, "debug", "delta"), exe], check=True)

ANSI = re.compile(r"\x1b\[[0-9;?]*[ -/]*[@-~]|\x1b\]8;;[^\x1b]*\x1b\\")
ARGS = ["--no-gitconfig", "--file-modified-label", "MOD", "--file-renamed-label", "REN", "--file-added-label", "ADD", "--file-removed-label", "DEL", "--file-copied-label", "CPY",
        "--file-style", "normal", "--file-decoration-style", "none", "--hunk-header-style", "file line-number", "--hunk-header-decoration-style", "none", "--right-arrow", "=>"]
bad = 0


def render(diff, extra=()):
    p = subprocess.run([exe] + ARGS + list(extra), input=diff, capture_output=True, text=True, env=env)
    return p.returncode, [l.rstrip() for l in ANSI.sub("", p.stdout).splitlines()]


def expect(name, diff, file_headers, hunk_headers):
    global bad
    rc, lines = render(diff)
    got_files = [l for l in lines if re.match(r"^(MOD|REN|ADD|DEL|CPY) ", l) or re.match(r"^\S.* \(mode [-+]x\)$", l)]
    got_hunks = [l for l in lines if re.match(r"^\S+:\d+:", l)]
    ok = rc == 0 and got_files == file_headers and [re.match(r"^(\S+:\d+):", h).group(1) for h in got_hunks] == hunk_headers
    if not ok:
        bad += 1
        print(f"api replay: scenario {name}: file headers {got_files} (expected {file_headers}); hunk headers {got_hunks} (expected {hunk_headers}); exit {rc}")
        open(os.path.join(outdir, f"api_replay_{name}.diff"), "w").write(diff)


HUNK = "@@ -40,3 +50,3 @@\n ctx\n-old\n+new\n ctx2\n"
expect("modified", "diff --git a/src/f.rs b/src/f.rs\nindex 1111111..2222222 100644\n--- a/src/f.rs\n+++ b/src/f.rs\n" + HUNK, ["MOD src/f.rs"], ["src/f.rs:50"])
expect("rename_with_changes", "diff --git a/src/original.rs b/src/duplicate.rs\nsimilarity index 90%\nrename from src/original.rs\nrename to src/duplicate.rs\nindex 1111111..2222222 100644\n--- a/src/original.rs\n+++ b/src/duplicate.rs\n" + HUNK,
       ["REN src/original.rs => src/duplicate.rs"], ["src/duplicate.rs:50"])
expect("rename_then_modified", "diff --git a/o.txt b/n.txt\nsimilarity index 100%\nrename from o.txt\nrename to n.txt\ndiff --git a/src/f.rs b/src/f.rs\nindex 1111111..2222222 100644\n--- a/src/f.rs\n+++ b/src/f.rs\n" + HUNK,
       ["REN o.txt => n.txt", "MOD src/f.rs"], ["src/f.rs:50"])
expect("mode_only_then_modified", "diff --git a/scripts/deploy.sh b/scripts/deploy.sh\nold mode 100644\nnew mode 100755\ndiff --git a/src/main.rs b/src/main.rs\nindex 1111111..2222222 100644\n--- a/src/main.rs\n+++ b/src/main.rs\n" + HUNK,
       ["MOD scripts/deploy.sh (mode +x)", "MOD src/main.rs"], ["src/main.rs:50"])
expect("pure_deletion_U0", "diff --git a/foo.txt b/foo.txt\nindex 1111111..2222222 100644\n--- a/foo.txt\n+++ b/foo.txt\n@@ -10,2 +13,0 @@\n-gone1\n-gone2\n", ["MOD foo.txt"], ["foo.txt:13"])
expect("removed_file", "diff --git a/dead.txt b/dead.txt\ndeleted file mode 100644\nindex 1111111..0000000\n--- a/dead.txt\n+++ /dev/null\n@@ -1,2 +0,0 @@\n-x\n-y\n", ["DEL dead.txt"], ["dead.txt:0"])
expect("added_file", "diff --git a/born.txt b/born.txt\nnew file mode 100644\nindex 0000000..1111111\n--- /dev/null\n+++ b/born.txt\n@@ -0,0 +1,2 @@\n+x\n+y\n", ["ADD born.txt"], ["born.txt:1"])
expect("two_modified", "diff --git a/a.rs b/a.rs\nindex 1111111..2222222 100644\n--- a/a.rs\n+++ b/a.rs\n" + HUNK + "diff --git a/b.rs b/b.rs\nindex 1111111..2222222 100644\n--- a/b.rs\n+++ b/b.rs\n@@ -7 +9 @@\n-p\n+q\n",
       ["MOD a.rs", "MOD b.rs"], ["a.rs:50", "b.rs:9"])
# a renamed AND modified binary file: one header
expect("renamed_binary", "diff --git a/img/old.png b/img/new.png\nsimilarity index 90%\nrename from img/old.png\nrename to img/new.png\nindex 1111111..2222222 100644\nBinary files a/img/old.png and b/img/new.png differ\n",
       ["REN img/old.png => img/new.png"], [])
# two commits; the first ends with an empty added file whose header is written lazily
two = ("commit 1111111111111111111111111111111111111111\nAuthor: A <a@b>\nDate:   Mon Jan 1 00:00:00 2024 +0000\n\n    first\n\ndiff --git a/empty.txt b/empty.txt\nnew file mode 100644\nindex 0000000..e69de29\n"
       "commit 2222222222222222222222222222222222222222\nAuthor: A <a@b>\nDate:   Mon Jan 2 00:00:00 2024 +0000\n\n    second\n\ndiff --git a/src/f.rs b/src/f.rs\nindex 1111111..2222222 100644\n--- a/src/f.rs\n+++ b/src/f.rs\n" + HUNK)
expect("lazy_header_before_next_commit", two, ["ADD empty.txt", "MOD src/f.rs"], ["src/f.rs:50"])

# a section with a two-path diff line and only a Binary line, after another section
bn = "diff --git a/README.md b/README.md\nindex 1111111..2222222 100644\n--- a/README.md\n+++ b/README.md\n" + HUNK + "diff --git a/img/one.png b/img/two.png\nindex 3333333..4444444 100644\nBinary files a/img/one.png and b/img/two.png differ\n"
rc, lines = render(bn)
stale = [l for l in lines if "README.md" in l and "binary" in l]
if rc != 0 or stale or len([l for l in lines if l.startswith("MOD README.md")]) != 1 or not any("one.png" in l and "two.png" in l for l in lines):
    bad += 1
    print(f"api replay: scenario modified_then_binary_two_paths: second section rendered from stale names or lost: {lines[-4:]}")
    open(os.path.join(outdir, "api_replay_binary.diff"), "w").write(bn)

# plain `diff -u`: a removed line whose text starts with "-- " reads "--- ..." and must stay content
du = "--- a.lua\t2024-01-01 00:00:00.000000000 +0000\n+++ b.lua\t2024-01-02 00:00:00.000000000 +0000\n@@ -1,2 +1,2 @@\n--- first removed comment\n-second removed\n+-- added comment\n+second added\n"
rc, lines = render(du)
text = "\n".join(lines)
n_headers = len([l for l in lines if l.startswith("MOD ") or "a.lua" in l and "=>" in l or l.startswith("comparing") or "b.lua" in l and ":" not in l])
if rc != 0 or "-- first removed comment" not in text or "second removed" not in text or "second added" not in text or text.count("first removed comment") != 1:
    bad += 1
    print(f"api replay: scenario diff_u_dashes_first_line: a removed line reading '--- ...' at the top of a hunk was not shown as content (exit {rc}): {lines}")
    open(os.path.join(outdir, "api_replay_diff_u.diff"), "w").write(du)
print(f"api replay: {bad} scenario(s) with wrong file headers or hunk-header boxes")
sys.exit(1 if bad else 0)
