#!/usr/bin/env python3
"""API-level replay for the C02 harnesses: with --color-only the real binary must emit exactly one
output line per input line for commit, file-header and hunk-header lines, whatever styles are configured
(omit / raw styles, decorations, line numbers, side-by-side).
usage: color_only_lines.py <tree> <outdir>    exit 1 = violation reproduced on the real binary"""
import fcntl, itertools, os, re, subprocess, sys

tree, outdir = sys.argv[1], sys.argv[2]
os.makedirs(outdir, exist_ok=True)
BUILD = os.environ.get("VERIF_BUILD", "/verif/.build")
target = os.path.join(BUILD, "native-target")
os.makedirs(BUILD, exist_ok=True)
env = dict(os.environ, CARGO_TARGET_DIR=target, CARGO_NET_OFFLINE="true", RUST_BACKTRACE="0")
with open(os.path.join(BUILD, "native.lock"), "w") as lk:
    fcntl.flock(lk, fcntl.LOCK_EX)
    src = os.path.join(BUILD, "native-src")
    subprocess.run(["rsync", "-a", "--delete", "--exclude", "/target", "--exclude", "/.git", "--exclude", "/verif_harness", tree.rstrip("/") + "/", src + "/"], check=True)
    subprocess.run("find src build.rs Cargo.toml -type f -exec touch {} + 2>/dev/null", shell=True, cwd=src)
    b = subprocess.run(["cargo", "build", "--offline", "-q"], cwd=src, env=env, capture_output=True, text=True)
    if b.returncode != 0:
        open(os.path.join(outdir, "api_replay_build.log"), "w").write(b.stderr)
        print("api replay: build failed")
        sys.exit(2)
    exe = os.path.join(outdir, "delta-under-test")
    subprocess.run(["cp", os.path.join(target, "debug", "delta"), exe], check=True)

ANSI = re.compile(r"\x1b\[[0-9;?]*[ -/]*[@-~]")
diff = ("commit 94907c0f136f46dc46ffae2dc92dca9af7eb7c2e\nAuthor: A U Thor <a@example.com>\nDate:   Thu Jan 1 00:00:00 1970 +0000\n\n    subject line\n\n"
        "diff --git a/src/f.rs b/src/f.rs\nindex 1111111..2222222 100644\n--- a/src/f.rs\n+++ b/src/f.rs\n@@ -40,3 +50,3 @@ fn ctx()\n ctx\n-old\n+new\n ctx2\n"
        "diff --git a/run.sh b/run.sh\nold mode 100644\nnew mode 100755\n"
        "diff --git a/born.txt b/born.txt\nnew file mode 100644\nindex 0000000..1111111\n--- /dev/null\n+++ b/born.txt\n@@ -0,0 +1 @@\n+x\n"
        "diff --git a/dead.txt b/dead.txt\ndeleted file mode 100644\nindex 1111111..0000000\n--- a/dead.txt\n+++ /dev/null\n@@ -1 +0,0 @@\n-y\n"
        "diff --git a/o.txt b/n.txt\nsimilarity index 90%\nrename from o.txt\nrename to n.txt\nindex 1111111..2222222 100644\n--- a/o.txt\n+++ b/n.txt\n@@ -1 +1 @@\n-p\n+q\n")
n_in = diff.count("\n")
bad = 0
opts = [[], ["--file-style", "red"], ["--file-style", "blue bold", "--file-decoration-style", "none"], ["--file-style", "omit"], ["--hunk-header-style", "omit"], ["--file-style", "raw"], ["--hunk-header-style", "raw"],
        ["--file-decoration-style", "box"], ["--hunk-header-decoration-style", "box ul"], ["--line-numbers"], ["--side-by-side"],
        ["--file-style", "omit", "--hunk-header-style", "omit", "--line-numbers"], ["--hunk-header-style", "file line-number syntax"],
        ["--commit-style", "omit"], ["--commit-style", "raw"], ["--commit-decoration-style", "box"], ["--commit-style", "omit", "--commit-decoration-style", "ul"]]
for o in opts:
    p = subprocess.run([exe, "--no-gitconfig", "--color-only"] + o, input=diff, capture_output=True, text=True, env=env)
    n_out = p.stdout.count("\n")
    vis_in = [l for l in diff.splitlines()]
    vis_out = [ANSI.sub("", l) for l in p.stdout.splitlines()]
    if p.returncode != 0 or n_out != n_in:
        bad += 1
        print(f"api replay: --color-only {o}: {n_in} input lines, {n_out} output lines (exit {p.returncode})")
        open(os.path.join(outdir, f"api_replay_color_only_{bad}.out"), "w").write(p.stdout)
print(f"api replay: {bad} option set(s) under which --color-only is not line for line")
sys.exit(1 if bad else 0)
