#!/usr/bin/env python3
"""API-level replay for the C01 buffering harnesses (c01_buffer_step_*): every hunk line must be
shown exactly once, in input order, for all sequences of removed / added / unchanged /
"\\ No newline" lines up to length 5 and several --line-buffer-size values, on the real binary.
usage: hunk_lines_once.py <tree> <outdir>    exit 1 = violation reproduced on the real binary"""
import fcntl, itertools, os, re, subprocess, sys

tree, outdir = sys.argv[1], sys.argv[2]
os.makedirs(outdir, exist_ok=True)
BUILD = os.environ.get("VERIF_BUILD", "/verif/.build")
target = os.path.join(BUILD, "native-target")
os.makedirs(BUILD, exist_ok=True)
env = dict(os.environ, CARGO_TARGET_DIR=target, CARGO_NET_OFFLINE="true", RUST_BACKTRACE="0")
with open(os.path.join(BUILD, "native.lock"), "w") as lk:
    fcntl.flock(lk, fcntl.LOCK_EX)
    src = os.path.join(BUILD, "native-src")
    subprocess.run(["rsync", "-a", "--delete", "--exclude", "/target", "--exclude", "/.git", "--exclude", "/verif_harness", tree.rstrip("/") + "/", src + "/"], check=True)
    subprocess.run("find src build.rs Cargo.toml -type f -exec touch {} + 2>/dev/null", shell=True, cwd=src)
    b = subprocess.run(["cargo", "build", "--offline", "-q"], cwd=src, env=env, capture_output=True, text=True)
    if b.returncode != 0:
        open(os.path.join(outdir, "api_replay_build.log"), "w").write(b.stderr)
        print("api replay: build failed")
        sys.exit(2)
    exe = os.path.join(outdir, "delta-under-test")
    subprocess.run(["cp", os.path.join(target, "debug", "delta"), exe], check=True)

ANSI = re.compile(r"\x1b\[[0-9;?]*[ -/]*[@-~]")
bad = 0
for n in (1, 2, 3, 4, 5):
    for kinds in itertools.product("-+ ", repeat=n):
        lines = [(k, f"line{idx}of{n}x") for idx, k in enumerate(kinds)]
        nm = sum(1 for k, _ in lines if k in "- ")
        npl = sum(1 for k, _ in lines if k in "+ ")
        diff = "diff --git a/f.txt b/f.txt\nindex 1111111..2222222 100644\n--- a/f.txt\n+++ b/f.txt\n" + f"@@ -1,{nm} +1,{npl} @@\n" + "".join(f"{k}{t}\n" for k, t in lines)
        for bufsize in ("0", "1", "32"):
            if n >= 4 and bufsize == "1":
                continue
            p = subprocess.run([exe, "--no-gitconfig", "--line-buffer-size", bufsize], input=diff, capture_output=True, text=True, env=env)
            out = ANSI.sub("", p.stdout)
            seen = re.findall(r"line\d+of\d+x", out)
            want = [t for _, t in lines]
            if p.returncode != 0 or seen != want:
                bad += 1
                if bad <= 5:
                    print(f"api replay: hunk {''.join(kinds)!r} with --line-buffer-size {bufsize}: lines shown {seen}, expected {want} (exit {p.returncode})")
                    open(os.path.join(outdir, f"api_replay_hunk_{bad}.diff"), "w").write(diff)
# adjacent hunks without context (git diff -U0), with and without a visible hunk header
adj = ("diff --git a/f.txt b/f.txt\nindex 1111111..2222222 100644\n--- a/f.txt\n+++ b/f.txt\n@@ -1 +1,2 @@\n-line0of6x\n+line1of6x\n+line2of6x\n@@ -5,2 +6 @@\n-line3of6x\n-line4of6x\n+line5of6x\n")
for extra in ([], ["--hunk-header-style", "omit"], ["--hunk-header-style", "omit", "--line-numbers"], ["--hunk-header-style", "raw"]):
    p = subprocess.run([exe, "--no-gitconfig"] + extra, input=adj, capture_output=True, text=True, env=env)
    seen = re.findall(r"line\d+of\d+x", ANSI.sub("", p.stdout))
    want = [f"line{i}of6x" for i in range(6)]
    if p.returncode != 0 or seen != want:
        bad += 1
        print(f"api replay: adjacent hunks with {extra}: lines shown {seen}, expected {want} (exit {p.returncode})")
print(f"api replay: {bad} hunk(s) in which a line is dropped, duplicated or reordered")
sys.exit(1 if bad else 0)
