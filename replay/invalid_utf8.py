#!/usr/bin/env python3
"""API-level replay for the C04 `ingest_line` harnesses: lines that are not valid UTF-8 must be
kept (invalid bytes replaced by U+FFFD), and cut only beyond --max-line-length (0 = unlimited).
usage: invalid_utf8.py <tree> <outdir>    exit 1 = violation reproduced on the real binary"""
import fcntl, os, subprocess, sys

tree, outdir = sys.argv[1], sys.argv[2]
os.makedirs(outdir, exist_ok=True)
BUILD = os.environ.get("VERIF_BUILD", "/verif/.build")
target = os.path.join(BUILD, "native-target")
os.makedirs(BUILD, exist_ok=True)
env = dict(os.environ, CARGO_TARGET_DIR=target, CARGO_NET_OFFLINE="true", RUST_BACKTRACE="0")
with open(os.path.join(BUILD, "native.lock"), "w") as lk:
    fcntl.flock(lk, fcntl.LOCK_EX)
    src = os.path.join(BUILD, "native-src")
    subprocess.run(["rsync", "-a", "--delete", "--exclude", "/target", "--exclude", "/.git", "--exclude", "/verif_harness", tree.rstrip("/") + "/", src + "/"], check=True)
    subprocess.run("find src build.rs Cargo.toml -type f -exec touch {} + 2>/dev/null", shell=True, cwd=src)
    b = subprocess.run(["cargo", "build", "--offline", "-q"], cwd=src, env=env, capture_output=True, text=True)
    if b.returncode != 0:
        open(os.path.join(outdir, "api_replay_build.log"), "w").write(b.stderr)
        print("api replay: build failed")
        sys.exit(2)
    exe = os.path.join(outdir, "delta-under-test")
    subprocess.run(["cp", os.path.join(target, "debug", "delta"), exe], check=True)

bad = 0
lines = [b"a\xffb", b"hello \xff world", b"\xfe", b"caf\xe9 au lait", b"x\x80\x80y"]
for limit in ("0", "512", "100000"):
    for extra in ([], ["--side-by-side", "--wrap-max-lines", "unlimited"]):
        if extra and limit != "512":
            continue
        args = [exe, "--no-gitconfig"] + (extra if extra else ["--max-line-length", limit])
        for ln in lines:
            p = subprocess.run(args, input=b"before\n" + ln + b"\nafter\n", capture_output=True, env=env)
            want = ln.decode("utf-8", "replace").encode()
            out = p.stdout.split(b"\n")
            if p.returncode != 0 or len(out) < 3 or out[0] != b"before" or out[1] != want or out[2] != b"after":
                bad += 1
                print(f"api replay: {args[2:]} line {ln!r}: expected {want!r}, got {out[:3]!r} (exit {p.returncode})")
print(f"api replay: {bad} invalid-UTF-8 line(s) not passed through with replacement")
sys.exit(1 if bad else 0)
