#!/usr/bin/env python3
"""API-level replay for c04_diff_stat_gate: ordinary text (no construct-opening markers) must come
out byte for byte, in particular lines that merely look like diffstat rows, under --relative-paths
with a git prefix. usage: passthrough_text.py <tree> <outdir>   exit 1 = violation reproduced"""
import fcntl, os, subprocess, sys

tree, outdir = sys.argv[1], sys.argv[2]
os.makedirs(outdir, exist_ok=True)
BUILD = os.environ.get("VERIF_BUILD", "/verif/.build")
target = os.path.join(BUILD, "native-target")
os.makedirs(BUILD, exist_ok=True)
env = dict(os.environ, CARGO_TARGET_DIR=target, CARGO_NET_OFFLINE="true", RUST_BACKTRACE="0")
with open(os.path.join(BUILD, "native.lock"), "w") as lk:
    fcntl.flock(lk, fcntl.LOCK_EX)
    src = os.path.join(BUILD, "native-src")
    subprocess.run(["rsync", "-a", "--delete", "--exclude", "/target", "--exclude", "/.git", "--exclude", "/verif_harness", tree.rstrip("/") + "/", src + "/"], check=True)
    subprocess.run("find src build.rs Cargo.toml -type f -exec touch {} + 2>/dev/null", shell=True, cwd=src)
    b = subprocess.run(["cargo", "build", "--offline", "-q"], cwd=src, env=env, capture_output=True, text=True)
    if b.returncode != 0:
        open(os.path.join(outdir, "api_replay_build.log"), "w").write(b.stderr)
        print("api replay: build failed")
        sys.exit(2)
    exe = os.path.join(outdir, "delta-under-test")
    subprocess.run(["cp", os.path.join(target, "debug", "delta"), exe], check=True)

text = (b"Results table\nname | 12 rows\nalpha beta | 3 ++-\n* | src/x.rs | 4 +-\nplain sentence with a | 7 pipes in it\n"
        b"\x1b[33mcoloured | 9 text\x1b[m\ntrailing line\n")
bad = 0
for args, extra_env in (([], {}), (["--relative-paths"], {"GIT_PREFIX": "src/"}), (["--relative-paths"], {}), (["--side-by-side"], {"GIT_PREFIX": "src/"})):
    e = dict(env)
    e.update(extra_env)
    p = subprocess.run([exe, "--no-gitconfig"] + args, input=text, capture_output=True, env=e)
    if p.returncode != 0 or p.stdout != text:
        bad += 1
        print(f"api replay: {args} {extra_env}: ordinary text was altered: {p.stdout[:200]!r}")
print(f"api replay: {bad} option set(s) under which ordinary text does not pass through unchanged")
sys.exit(1 if bad else 0)
