#!/usr/bin/env python3
"""API-level replay for cr::c04_ingest_cr_before_escape: coloured ordinary text with CRLF line endings
where escape sequences sit between the CR and the LF must come out byte for byte except for the CR.
usage: crlf_escape.py <tree> <outdir>   exit 1 = violation reproduced"""
import fcntl, os, subprocess, sys

tree, outdir = sys.argv[1], sys.argv[2]
os.makedirs(outdir, exist_ok=True)
BUILD = os.environ.get("VERIF_BUILD", "/verif/.build")
target = os.path.join(BUILD, "native-target")
os.makedirs(BUILD, exist_ok=True)
env = dict(os.environ, CARGO_TARGET_DIR=target, CARGO_NET_OFFLINE="true", RUST_BACKTRACE="0")
with open(os.path.join(BUILD, "native.lock"), "w") as lk:
    fcntl.flock(lk, fcntl.LOCK_EX)
    src = os.path.join(BUILD, "native-src")
    subprocess.run(["rsync", "-a", "--delete", "--exclude", "/target", "--exclude", "/.git", "--exclude", "/verif_harness", tree.rstrip("/") + "/", src + "/"], check=True)
    subprocess.run("find src build.rs Cargo.toml -type f -exec touch {} + 2>/dev/null", shell=True, cwd=src)
    b = subprocess.run(["cargo", "build", "--offline", "-q"], cwd=src, env=env, capture_output=True, text=True)
    if b.returncode != 0:
        open(os.path.join(outdir, "api_replay_build.log"), "w").write(b.stderr)
        print("api replay: build failed")
        sys.exit(2)
    exe = os.path.join(outdir, "delta-under-test")
    subprocess.run(["cp", os.path.join(target, "debug", "delta"), exe], check=True)

text = (b"Build log\nstep 1: \x1b[32mok\x1b[1m\r\x1b[0m\nplain line\r\nstep 2: \x1b[31mfailed\r\x1b[m\nprogress 10%\rprogress 100%\nlast \x1b[33mline\x1b[0m\n")
want = (b"Build log\nstep 1: \x1b[32mok\x1b[1m\x1b[0m\nplain line\nstep 2: \x1b[31mfailed\x1b[m\nprogress 10%\rprogress 100%\nlast \x1b[33mline\x1b[0m\n")
bad = 0
for args in ([], ["--side-by-side"], ["--color-only"], ["--max-line-length", "0"]):
    p = subprocess.run([exe, "--no-gitconfig"] + args, input=text, capture_output=True, env=env)
    if p.returncode != 0 or p.stdout != want:
        bad += 1
        print(f"api replay: {args}: CRLF text was altered beyond removal of the CR: {p.stdout[:200]!r}")
print(f"api replay: {bad} option set(s) under which coloured CRLF text loses more than its carriage returns")
sys.exit(1 if bad else 0)
