#!/usr/bin/env python3
"""API-level replay for the C07 padding harnesses: in side-by-side view the right panel must start
at the same column on every row (the left half row is padded or truncated to exactly the panel
width), for ASCII lines shorter than, equal to and longer than the panel, with and without
wrapping. usage: sbs_geometry.py <tree> <outdir>   exit 1 = violation reproduced"""
import fcntl, os, re, subprocess, sys

tree, outdir = sys.argv[1], sys.argv[2]
os.makedirs(outdir, exist_ok=True)
BUILD = os.environ.get("VERIF_BUILD", "/verif/.build")
target = os.path.join(BUILD, "native-target")
os.makedirs(BUILD, exist_ok=True)
env = dict(os.environ, CARGO_TARGET_DIR=target, CARGO_NET_OFFLINE="true", RUST_BACKTRACE="0")
with open(os.path.join(BUILD, "native.lock"), "w") as lk:
    fcntl.flock(lk, fcntl.LOCK_EX)
    src = os.path.join(BUILD, "native-src")
    subprocess.run(["rsync", "-a", "--delete", "--exclude", "/target", "--exclude", "/.git", "--exclude", "/verif_harness", tree.rstrip("/") + "/", src + "/"], check=True)
    subprocess.run("find src build.rs Cargo.toml -type f -exec touch {} + 2>/dev/null", shell=True, cwd=src)
    b = subprocess.run(["cargo", "build", "--offline", "-q"], cwd=src, env=env, capture_output=True, text=True)
    if b.returncode != 0:
        open(os.path.join(outdir, "api_replay_build.log"), "w").write(b.stderr)
        print("api replay: build failed")
        sys.exit(2)
    exe = os.path.join(outdir, "delta-under-test")
    subprocess.run(["cp", os.path.join(target, "debug", "delta"), exe], check=True)

ANSI = re.compile(r"\x1b\[[0-9;?]*[ -/]*[@-~]")
lines = [("-", "short"), ("-", "x" * 24), ("-", "y" * 23), ("-", "z" * 25), ("-", ""), ("+", "new short"), ("+", "w" * 60), (" ", "context"), (" ", "c" * 70), ("-", "only removed"), (" ", ""), ("+", "only added")]
nm = sum(1 for k, _ in lines if k in "- ")
npl = sum(1 for k, _ in lines if k in "+ ")
diff = "diff --git a/f.txt b/f.txt\nindex 1111111..2222222 100644\n--- a/f.txt\n+++ b/f.txt\n" + f"@@ -1,{nm} +1,{npl} @@\n" + "".join(f"{k}{t}\n" for k, t in lines)
bad = 0
for args in (["--width", "60"], ["--width", "61"], ["--width", "60", "--wrap-max-lines", "0"], ["--width", "40", "--line-fill-method", "spaces"], ["--width", "80", "--wrap-max-lines", "unlimited"]):
    p = subprocess.run([exe, "--no-gitconfig", "--side-by-side"] + args, input=diff, capture_output=True, text=True, env=env)
    cols = set()
    rows = 0
    for row in ANSI.sub("", p.stdout).splitlines():
        m = re.match(r"^(│[ \d]*│.*?)│[ \d]*│", row)
        if m and row.startswith("│"):
            rows += 1
            cols.add(len(m.group(1)))
    if p.returncode != 0 or rows < 8 or len(cols) != 1:
        bad += 1
        print(f"api replay: --side-by-side {args}: right panel starts at columns {sorted(cols)} over {rows} rows (exit {p.returncode})")
        open(os.path.join(outdir, f"api_replay_sbs_{bad}.out"), "w").write(p.stdout)
print(f"api replay: {bad} option set(s) under which the right panel does not start at one column")
sys.exit(1 if bad else 0)
