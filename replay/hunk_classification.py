#!/usr/bin/env python3
"""API-level replay for the hunk-line classification harnesses (classify::c01_classify_*).

The harnesses stub the raw-line machinery and the calling-process query, so Kani's playback cannot
re-execute them natively. A counterexample is confirmed against the REAL binary built from the
tree under test with three scenario families:
  A. no crash, and every line's text still shown, for unified and combined (2 and 3 parent) hunks
     whose lines have multi-byte characters in or next to the marker columns;
  B. classification: in a combined hunk a line is rendered as removed / added / unchanged
     according to its marker columns (first '-' or '+' in the prefix), observed through distinct
     minus / plus / zero styles;
  C. colouring: the same combined diff coloured the way git colours it (plain red / green per
     line) renders byte-identically to the uncoloured diff (the raw-line decision must be keyed on
     the line's kind, not on where the marker sits).
usage: hunk_classification.py <tree> <outdir>    exit 1 = violation reproduced, 0 = fine, 2 = n/a
"""
import fcntl, os, re, subprocess, sys

tree, outdir = sys.argv[1], sys.argv[2]
os.makedirs(outdir, exist_ok=True)
BUILD = os.environ.get("VERIF_BUILD", "/verif/.build")
target = os.path.join(BUILD, "native-target")
os.makedirs(BUILD, exist_ok=True)
env = dict(os.environ, CARGO_TARGET_DIR=target, CARGO_NET_OFFLINE="true", RUST_BACKTRACE="0")
with open(os.path.join(BUILD, "native.lock"), "w") as lk:
    fcntl.flock(lk, fcntl.LOCK_EX)
    # Build in a private copy at a fixed path and touch every source file: cargo decides
    # freshness by mtime, and a cache shared between different trees would otherwise hand back
    # the binary of whichever tree was built last.
    src = os.path.join(BUILD, "native-src")
    subprocess.run(["rsync", "-a", "--delete", "--exclude", "/target", "--exclude", "/.git", "--exclude", "/verif_harness", tree.rstrip("/") + "/", src + "/"], check=True)
    subprocess.run("find src build.rs Cargo.toml -type f -exec touch {} + 2>/dev/null", shell=True, cwd=src)
    b = subprocess.run(["cargo", "build", "--offline", "-q"], cwd=src, env=env, capture_output=True, text=True)
    if b.returncode != 0:
        open(os.path.join(outdir, "api_replay_build.log"), "w").write(b.stderr)
        print("api replay: build failed")
        sys.exit(2)
    exe = os.path.join(outdir, "delta-under-test")
    subprocess.run(["cp", os.path.join(target, "debug", "delta"), exe], check=True)

ANSI = re.compile(r"\x1b\[[0-9;?]*[ -/]*[@-~]")
bad = 0


def run(args, data):
    return subprocess.run([exe, "--no-gitconfig"] + args, input=data.encode(), capture_output=True, env=env)


def header(parents):
    at = "@" * (parents + 1)
    coords = " ".join(["-1,9"] * parents + ["+1,9"])
    if parents == 1:
        return f"diff --git a/f.txt b/f.txt\nindex 1111111..2222222 100644\n--- a/f.txt\n+++ b/f.txt\n{at} {coords} {at}\n"
    return f"diff --cc f.txt\nindex 1111111,2222222..3333333\n--- a/f.txt\n+++ b/f.txt\n{at} {coords} {at}\n"


# ---- A: hostile content in / next to the marker columns
weird = ["x€uro", " €uro", "€", "+été", "é", " é ", "-€", "  €", "é+"]
for parents in (1, 2, 3):
    for w in weird:
        data = header(parents) + " " * parents + "context\n" + w + "\n" + " " * parents + "more\n"
        p = run([], data)
        text = ANSI.sub("", p.stdout.decode("utf-8", "replace"))
        if p.returncode != 0 or b"panicked" in p.stderr:
            bad += 1
            print(f"api replay: {parents}-parent hunk, line {w!r}: exit {p.returncode}: {p.stderr.decode('utf-8', 'replace').strip().splitlines()[:2]}")
            open(os.path.join(outdir, f"api_replay_crash_{parents}_{bad}.diff"), "w").write(data)
        elif w[parents:] not in text:  # whatever follows the marker columns must still be shown
            bad += 1
            print(f"api replay: {parents}-parent hunk, line {w!r}: text missing from the output")

# ---- B: classification in a combined hunk, seen through distinct styles
styles = ["--minus-style", "red", "--plus-style", "green", "--zero-style", "blue", "--minus-emph-style", "red", "--plus-emph-style", "green", "--syntax-theme", "none", "--keep-plus-minus-markers"]
cases = [("  ", "zero"), (" -", "minus"), ("- ", "minus"), ("--", "minus"), (" +", "plus"), ("+ ", "plus"), ("++", "plus")]
for prefix, kind in cases:
    data = header(2) + "  context\n" + prefix + "payload_text\n" + "  more\n"
    p = run(styles, data)
    out = p.stdout.decode("utf-8", "replace")
    line = [l for l in out.splitlines() if "payload_text" in l]
    want = {"zero": "\x1b[34m", "minus": "\x1b[31m", "plus": "\x1b[32m"}[kind]
    if p.returncode != 0 or len(line) != 1 or want not in line[0]:
        bad += 1
        print(f"api replay: combined line with markers {prefix!r} not rendered as {kind}: {line!r}")

# ---- C: git's default colouring of a combined diff must not matter
body = [("  ", "common"), (" -", "gone relative to the second parent"), (" +", "new relative to the second parent"), ("- ", "gone relative to the first parent"),
        ("+ ", "new relative to the first parent"), ("--", "gone in both"), ("++", "new in both"), ("  ", "tail")]
plain = header(2) + "".join(f"{m}{t}\n" for m, t in body)
col = header(2)
for m, t in body:
    if "-" in m:
        col += f"\x1b[31m{m}{t}\x1b[m\n"
    elif "+" in m:
        col += f"\x1b[32m{m}{t}\x1b[m\n"
    else:
        col += f"{m}{t}\n"
for args in ([], ["--side-by-side", "--width", "100"], ["--line-numbers"]):
    a, c = run(args, plain), run(args, col)
    if a.returncode != 0 or c.returncode != 0 or a.stdout != c.stdout:
        bad += 1
        print(f"api replay: coloured and plain combined diff render differently with {args}")
        open(os.path.join(outdir, "api_replay_coloured.diff"), "w").write(col)
        open(os.path.join(outdir, "api_replay_plain.diff"), "w").write(plain)

print(f"api replay: {bad} scenario(s) violating classification / crash-freedom / colour-independence")
sys.exit(1 if bad else 0)
