#!/usr/bin/env python3
"""API-level replay for sbs_rows::c03_unified_line_fill_spaces: lines wider than the terminal with
a background colour, filled with spaces (--line-fill-method spaces), must not crash the real binary.
usage: wide_line_fill.py <tree> <outdir>    exit 1 = crash reproduced"""
import fcntl, os, subprocess, sys

tree, outdir = sys.argv[1], sys.argv[2]
os.makedirs(outdir, exist_ok=True)
BUILD = os.environ.get("VERIF_BUILD", "/verif/.build")
target = os.path.join(BUILD, "native-target")
os.makedirs(BUILD, exist_ok=True)
env = dict(os.environ, CARGO_TARGET_DIR=target, CARGO_NET_OFFLINE="true", RUST_BACKTRACE="0")
with open(os.path.join(BUILD, "native.lock"), "w") as lk:
    fcntl.flock(lk, fcntl.LOCK_EX)
    src = os.path.join(BUILD, "native-src")
    subprocess.run(["rsync", "-a", "--delete", "--exclude", "/target", "--exclude", "/.git", "--exclude", "/verif_harness", tree.rstrip("/") + "/", src + "/"], check=True)
    subprocess.run("find src build.rs Cargo.toml -type f -exec touch {} + 2>/dev/null", shell=True, cwd=src)
    b = subprocess.run(["cargo", "build", "--offline", "-q"], cwd=src, env=env, capture_output=True, text=True)
    if b.returncode != 0:
        open(os.path.join(outdir, "api_replay_build.log"), "w").write(b.stderr)
        print("api replay: build failed")
        sys.exit(2)
    exe = os.path.join(outdir, "delta-under-test")
    subprocess.run(["cp", os.path.join(target, "debug", "delta"), exe], check=True)

wide = "long text " * 60
diff = f"diff --git a/f b/f\n--- a/f\n+++ b/f\n@@ -1,3 +1,3 @@\n {wide}\n-{wide}old\n+{wide}new\n short\n"
bad = 0
for args in (["--zero-style", "normal blue"], [], ["--line-numbers", "--zero-style", "normal blue"], ["--width", "40", "--zero-style", "normal blue"]):
    p = subprocess.run([exe, "--no-gitconfig", "--line-fill-method", "spaces"] + args, input=diff, capture_output=True, text=True, env=env)
    if p.returncode != 0 or "long text" not in p.stdout:
        bad += 1
        print(f"api replay: --line-fill-method spaces {args}: exit {p.returncode}: {p.stderr.strip().splitlines()[:2]}")
print(f"api replay: {bad} option set(s) under which a line wider than the terminal crashes the spaces fill")
sys.exit(1 if bad else 0)
