#!/usr/bin/env python3
"""API-level replay for the side-by-side numbering harnesses (sbs_rows::c05_sbs_row_*).

Those harnesses cut rendering away with stubs, so Kani's concrete playback cannot re-execute them
natively. A counterexample is instead confirmed against the REAL binary built from the tree under
test: a fixed family of diffs that produce every row kind (paired first rows, continuation rows on
either side, unpaired removed / added lines, with and without wrapping) is rendered with
`delta --side-by-side --line-numbers`, the number gutters are read back from the output and
compared with the true old/new line numbers (hunk start + number of preceding lines of that file).

usage: sbs_numbering.py <tree> <outdir>      exit 1 = wrong numbers reproduced, 0 = numbers right,
                                             2 = could not build / run
"""
import fcntl, os, re, subprocess, sys

tree, outdir = sys.argv[1], sys.argv[2]
os.makedirs(outdir, exist_ok=True)
BUILD = os.environ.get("VERIF_BUILD", "/verif/.build")
target = os.path.join(BUILD, "native-target")
os.makedirs(BUILD, exist_ok=True)
env = dict(os.environ, CARGO_TARGET_DIR=target, CARGO_NET_OFFLINE="true", RUST_BACKTRACE="0")
with open(os.path.join(BUILD, "native.lock"), "w") as lk:
    fcntl.flock(lk, fcntl.LOCK_EX)
    # Build in a private copy at a fixed path and touch every source file: cargo decides
    # freshness by mtime, and a cache shared between different trees would otherwise hand back
    # the binary of whichever tree was built last.
    src = os.path.join(BUILD, "native-src")
    subprocess.run(["rsync", "-a", "--delete", "--exclude", "/target", "--exclude", "/.git", "--exclude", "/verif_harness", tree.rstrip("/") + "/", src + "/"], check=True)
    subprocess.run("find src build.rs Cargo.toml -type f -exec touch {} + 2>/dev/null", shell=True, cwd=src)
    b = subprocess.run(["cargo", "build", "--offline", "-q"], cwd=src, env=env, capture_output=True, text=True)
    if b.returncode != 0:
        open(os.path.join(outdir, "api_replay_build.log"), "w").write(b.stderr)
        print("api replay: build failed")
        sys.exit(2)
    exe = os.path.join(outdir, "delta-under-test")
    subprocess.run(["cp", os.path.join(target, "debug", "delta"), exe], check=True)

ANSI = re.compile(r"\x1b\[[0-9;?]*[ -/]*[@-~]|\x1b\]8;;.*?\x1b\\\\")
LONG = "x" * 20 + " " + "y" * 20  # wraps at --width 60 (24 text columns per panel)
SHORT = "short"


def hunk(old_start, new_start, lines):
    nm = sum(1 for k, _ in lines if k in "- ")
    npl = sum(1 for k, _ in lines if k in "+ ")
    body = "".join(f"{k}{t}\n" for k, t in lines)
    return f"@@ -{old_start},{nm} +{new_start},{npl} @@\n" + body


SCENARIOS = {
    "paired_short": [("-", SHORT + "1"), ("+", SHORT + "2"), (" ", "ctx")],
    "paired_long_both": [("-", LONG + "1"), ("+", LONG + "2"), (" ", "ctx")],
    "paired_left_wraps": [("-", LONG + "1"), ("+", SHORT), (" ", "ctx")],
    "paired_right_wraps": [("-", SHORT), ("+", LONG + "2"), (" ", "ctx")],
    "removed_only_wrapping": [("-", "a1"), ("-", LONG + "r"), ("-", "a3"), (" ", "ctx"), (" ", "ctx2")],
    "added_only_wrapping": [("+", "b1"), ("+", LONG + "a"), ("+", "b3"), (" ", "ctx")],
    "two_pairs_uneven": [("-", LONG + "1"), ("-", SHORT + "m"), ("+", SHORT + "p"), ("+", LONG + "2"), (" ", "ctx")],
    "unpaired_then_pair": [("-", "zzz totally different"), ("-", SHORT + " same"), ("+", SHORT + " same!"), ("+", "qqq 123 456"), (" ", "ctx")],
}

bad = 0
for name, lines in SCENARIOS.items():
    for old_start, new_start in ((10, 20), (998, 7)):
        diff = "diff --git a/f.txt b/f.txt\nindex 1111111..2222222 100644\n--- a/f.txt\n+++ b/f.txt\n" + hunk(old_start, new_start, lines)
        p = subprocess.run([exe, "--no-gitconfig", "--side-by-side", "--line-numbers", "--width", "60", "--wrap-max-lines", "4"], input=diff, capture_output=True, text=True, env=env)
        if p.returncode != 0:
            print(f"api replay: delta exited {p.returncode} on scenario {name}: {p.stderr[-300:]}")
            bad += 1
            continue
        exp_left, exp_right = [], []
        o, n = old_start, new_start
        for k, _ in lines:
            if k == "-":
                exp_left.append(o); o += 1
            elif k == "+":
                exp_right.append(n); n += 1
            else:
                exp_left.append(o); exp_right.append(n); o += 1; n += 1
        got_left, got_right = [], []
        for row in ANSI.sub("", p.stdout).splitlines():
            m = re.match(r"^│\s*(\d*)\s*│(.*?)│\s*(\d*)\s*│", row)
            if not m:
                continue
            if m.group(1):
                got_left.append(int(m.group(1)))
            if m.group(3):
                got_right.append(int(m.group(3)))
        ok = got_left == exp_left and got_right == exp_right
        if not ok:
            bad += 1
            print(f"api replay: scenario {name} (-{old_start} +{new_start}): left gutter {got_left} expected {exp_left}; right gutter {got_right} expected {exp_right}")
            with open(os.path.join(outdir, f"api_replay_{name}_{old_start}.diff"), "w") as f:
                f.write(diff)
            with open(os.path.join(outdir, f"api_replay_{name}_{old_start}.out"), "w") as f:
                f.write(p.stdout)
print(f"api replay: {bad} scenario(s) with wrong line numbers")
sys.exit(1 if bad else 0)
