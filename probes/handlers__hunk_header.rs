// PROBE SNIPPETS (design phase, 2026-10-04) - appended to src/handlers/hunk_header.rs of a scratch copy of /repo.
// Not registered harnesses; see DESIGN.md section 4 for which ones finished.

#[cfg(kani)]
mod kani_probe {
    use super::*;
    #[kani::proof]
    #[kani::unwind(7)]
    fn r6_minus_counter() {
        let n: usize = kani::any();
        kani::assume(n >= 1 && n <= 5);
        let mut c = AmbiguousDiffMinusCounter::prepare_to_count();
        assert!(c.three_dashes_expected());
        assert!(c.must_count());
        c = AmbiguousDiffMinusCounter::count_from(n);
        let mut k = 0;
        while k < 5 { if k < n { assert!(!c.three_dashes_expected()); c.count_line(); } k += 1; }
        assert!(c.three_dashes_expected());
    }
}
