// PROBE SNIPPETS (design phase, 2026-10-04) - appended to src/style.rs of a scratch copy of /repo.
// Not registered harnesses; see DESIGN.md section 4 for which ones finished.

#[cfg(kani)]
mod kani_probe {
    use super::*;
    fn any_color() -> Option<ansi_term::Color> {
        let k: u8 = kani::any();
        match k % 11 { 0 => None, 1 => Some(ansi_term::Color::Black), 2 => Some(ansi_term::Color::Red), 3 => Some(ansi_term::Color::Green), 4 => Some(ansi_term::Color::Yellow), 5 => Some(ansi_term::Color::Blue), 6 => Some(ansi_term::Color::Purple), 7 => Some(ansi_term::Color::Cyan), 8 => Some(ansi_term::Color::White), 9 => Some(ansi_term::Color::Fixed(kani::any())), _ => Some(ansi_term::Color::RGB(kani::any(), kani::any(), kani::any())) }
    }
    fn any_at() -> ansi_term::Style {
        ansi_term::Style { foreground: any_color(), background: any_color(), is_bold: kani::any(), is_dimmed: kani::any(), is_italic: kani::any(), is_underline: kani::any(), is_blink: kani::any(), is_reverse: kani::any(), is_hidden: kani::any(), is_strikethrough: kani::any() }
    }
    #[kani::proof]
    fn r4_equality_vs_key() {
        let (a, b) = (any_at(), any_at());
        assert!(ansi_term_style_equality(a, b) == (ansi_term_style_equality_key(a) == ansi_term_style_equality_key(b)));
    }
}
