// PROBE SNIPPETS (design phase, 2026-10-04) - appended to src/align.rs of a scratch copy of /repo.
// Not registered harnesses; see DESIGN.md section 4 for which ones finished.

#[cfg(kani)]
mod kani_probe {
    use super::*;
    const ALPHA: [&str; 3] = ["a", "b", " "];
    fn tok() -> &'static str {
        let i: u8 = kani::any();
        kani::assume(i < 3);
        ALPHA[i as usize]
    }
    fn check(m: usize, n: usize) {
        let mut x: Vec<&str> = Vec::with_capacity(m + 1);
        let mut y: Vec<&str> = Vec::with_capacity(n + 1);
        x.push("");
        y.push("");
        for _ in 0..m { x.push(tok()); }
        for _ in 0..n { y.push(tok()); }
        let xs = x.clone();
        let ys = y.clone();
        let al = Alignment::new(x, y);
        let ops = al.operations();
        let (mut i, mut j) = (0usize, 0usize);
        for op in ops.iter() {
            match op {
                NoOp => { assert!(i < xs.len() && j < ys.len()); assert!(xs[i] == ys[j]); i += 1; j += 1; }
                Deletion => { assert!(i < xs.len()); i += 1; }
                Insertion => { assert!(j < ys.len()); j += 1; }
            }
        }
        assert!(i == xs.len());
        assert!(j == ys.len());
        std::mem::forget(ops); std::mem::forget(al); std::mem::forget(xs); std::mem::forget(ys);
    }
    #[kani::proof]
    #[kani::unwind(17)]
    fn p1_align_2_2() { check(2, 2); }
    #[kani::proof]
    #[kani::unwind(26)]
    fn p1_align_3_3() { check(3, 3); }
}

#[cfg(kani)]
mod kani_probe8 {
    use super::*;
    const ALPHA: [&str; 3] = ["a", "b", " "];
    fn tok() -> &'static str { let i: u8 = kani::any(); kani::assume(i < 3); ALPHA[i as usize] }
    fn mk(m: usize, n: usize) -> Alignment<'static> {
        let mut x: Vec<&str> = Vec::with_capacity(m + 1);
        let mut y: Vec<&str> = Vec::with_capacity(n + 1);
        x.push(""); y.push("");
        for _ in 0..m { x.push(tok()); }
        for _ in 0..n { y.push(tok()); }
        Alignment::new(x, y)
    }
    #[kani::proof]
    #[kani::unwind(17)]
    fn u1_fill_only() { let al = mk(2, 2); let c = al.table[al.index(3, 3)].cost; assert!(c <= 20); std::mem::forget(al); }
    #[kani::proof]
    #[kani::unwind(17)]
    fn u2_ops_len() { let al = mk(2, 2); let ops = al.operations(); assert!(ops.len() >= 3 && ops.len() <= 5); std::mem::forget(ops); std::mem::forget(al); }
}

#[cfg(kani)]
mod kani_probe9 {
    use super::*;
    const ALPHA: [&str; 3] = ["a", "b", " "];
    fn check<const M: usize, const N: usize>() {
        let mut xi = [0u8; M]; let mut yi = [0u8; N];
        let mut x: Vec<&str> = Vec::with_capacity(M + 1);
        let mut y: Vec<&str> = Vec::with_capacity(N + 1);
        x.push(""); y.push("");
        for k in 0..M { let i: u8 = kani::any(); kani::assume(i < 3); xi[k] = i; x.push(ALPHA[i as usize]); }
        for k in 0..N { let i: u8 = kani::any(); kani::assume(i < 3); yi[k] = i; y.push(ALPHA[i as usize]); }
        let al = Alignment::new(x, y);
        let ops = al.operations();
        let n = ops.len();
        assert!(n >= 1 && n <= M + N + 1);
        // walk: position counters over the shadow ids (index 0 is the "" token)
        let (mut i, mut j) = (0usize, 0usize);
        let mut k = 0;
        while k < M + N + 1 {
            if k < n {
                match ops[k] {
                    NoOp => { assert!(i <= M && j <= N); if i == 0 || j == 0 { assert!(i == 0 && j == 0); } else { assert!(xi[i - 1] == yi[j - 1]); } i += 1; j += 1; }
                    Deletion => { assert!(i <= M); i += 1; }
                    Insertion => { assert!(j <= N); j += 1; }
                }
            }
            k += 1;
        }
        assert!(i == M + 1 && j == N + 1);
        kani::cover!(n == M + N + 1);
        std::mem::forget(ops); std::mem::forget(al);
    }
    #[kani::proof]
    #[kani::unwind(17)]
    fn u3_align_2_2() { check::<2, 2>(); }
    #[kani::proof]
    #[kani::unwind(26)]
    fn u3_align_3_3() { check::<3, 3>(); }
    #[kani::proof]
    #[kani::unwind(31)]
    fn u3_align_4_3() { check::<4, 3>(); }
    #[kani::proof]
    #[kani::unwind(37)]
    fn u3_align_4_4() { check::<4, 4>(); }
}

#[cfg(kani)]
mod kani_probe12 {
    use super::*;
    const ALPHA: [&str; 3] = ["a", "b", " "];
    // y = x with a contiguous run of K tokens inserted at symbolic position p
    fn check<const M: usize, const K: usize, const N: usize>() {
        let mut xi = [0u8; M]; let mut ri = [0u8; K]; let mut yi = [0u8; N];
        for k in 0..M { let i: u8 = kani::any(); kani::assume(i < 3); xi[k] = i; }
        for k in 0..K { let i: u8 = kani::any(); kani::assume(i < 3); ri[k] = i; }
        let p: usize = kani::any(); kani::assume(p <= M);
        for j in 0..N { yi[j] = if j < p { xi[j] } else if j < p + K { ri[j - p] } else { xi[j - K] }; }
        let mut x: Vec<&str> = Vec::with_capacity(M + 1);
        let mut y: Vec<&str> = Vec::with_capacity(N + 1);
        x.push(""); y.push("");
        for k in 0..M { x.push(ALPHA[xi[k] as usize]); }
        for k in 0..N { y.push(ALPHA[yi[k] as usize]); }
        let al = Alignment::new(x, y);
        let ops = al.operations();
        let n = ops.len();
        let (mut ins, mut del, mut runs) = (0usize, 0usize, 0usize);
        let mut prev_ins = false;
        let mut k = 0;
        while k < M + N + 1 {
            if k < n {
                match ops[k] {
                    NoOp => { prev_ins = false; }
                    Deletion => { del += 1; prev_ins = false; }
                    Insertion => { ins += 1; if !prev_ins { runs += 1; } prev_ins = true; }
                }
            }
            k += 1;
        }
        assert!(del == 0);
        assert!(ins == K);
        assert!(runs == 1);
        std::mem::forget(ops); std::mem::forget(al);
    }
    #[kani::proof]
    #[kani::unwind(21)]
    fn u4_single_run_2_1() { check::<2, 1, 3>(); }
    #[kani::proof]
    #[kani::unwind(26)]
    fn u4_single_run_2_2() { check::<2, 2, 4>(); }
    #[kani::proof]
    #[kani::unwind(31)]
    fn u4_single_run_3_1() { check::<3, 1, 4>(); }
}

#[cfg(kani)]
mod kani_probe13 {
    use super::*;
    const ALPHA: [&str; 3] = ["a", "b", " "];
    // y = x with exactly one token substituted at symbolic position p
    fn check<const M: usize>() {
        let mut xi = [0u8; M]; let mut yi = [0u8; M];
        for k in 0..M { let i: u8 = kani::any(); kani::assume(i < 3); xi[k] = i; }
        let p: usize = kani::any(); kani::assume(p < M);
        let r: u8 = kani::any(); kani::assume(r < 3 && r != xi[p]);
        for j in 0..M { yi[j] = if j == p { r } else { xi[j] }; }
        let mut x: Vec<&str> = Vec::with_capacity(M + 1);
        let mut y: Vec<&str> = Vec::with_capacity(M + 1);
        x.push(""); y.push("");
        for k in 0..M { x.push(ALPHA[xi[k] as usize]); y.push(ALPHA[yi[k] as usize]); }
        let al = Alignment::new(x, y);
        let ops = al.operations();
        let n = ops.len();
        let (mut ins, mut del, mut changed_runs) = (0usize, 0usize, 0usize);
        let mut prev_changed = false;
        let mut k = 0;
        while k < 2 * M + 1 {
            if k < n {
                match ops[k] {
                    NoOp => { prev_changed = false; }
                    Deletion => { del += 1; if !prev_changed { changed_runs += 1; } prev_changed = true; }
                    Insertion => { ins += 1; if !prev_changed { changed_runs += 1; } prev_changed = true; }
                }
            }
            k += 1;
        }
        assert!(del == 1 && ins == 1 && changed_runs == 1);
        std::mem::forget(ops); std::mem::forget(al);
    }
    #[kani::proof]
    #[kani::unwind(17)]
    fn u5_substitution_2() { check::<2>(); }
    #[kani::proof]
    #[kani::unwind(26)]
    fn u5_substitution_3() { check::<3>(); }
}
