// PROBE SNIPPETS (design phase, 2026-10-04) - appended to src/handlers/hunk.rs of a scratch copy of /repo.
// Not registered harnesses; see DESIGN.md section 4 for which ones finished.

#[cfg(kani)]
mod kani_probe {
    use super::*;
    use std::mem::MaybeUninit;
    use std::ptr::addr_of_mut;
    fn stub_is_word_diff() -> bool { false }
    fn stub_format(_a: std::fmt::Arguments<'_>) -> String { String::new() }
    fn cfg() -> &'static Config {
        let c: &'static mut MaybeUninit<Config> = Box::leak(Box::new(MaybeUninit::uninit()));
        let p = c.as_mut_ptr();
        unsafe {
            addr_of_mut!((*p).minus_style).write(style::Style::new());
            addr_of_mut!((*p).zero_style).write(style::Style::new());
            addr_of_mut!((*p).plus_style).write(style::Style::new());
            addr_of_mut!((*p).git_minus_style).write(style::Style::new());
            addr_of_mut!((*p).git_plus_style).write(style::Style::new());
            addr_of_mut!((*p).inspect_raw_lines).write(cli::InspectRawLines::False);
            &*p
        }
    }
    #[kani::proof]
    #[kani::unwind(5)]
    #[kani::stub(is_word_diff, stub_is_word_diff)]
    #[kani::stub(std::fmt::format, stub_format)]
    fn n1_unified_classification() {
        let config = cfg();
        let b: [u8; 3] = kani::any();
        let s = match std::str::from_utf8(&b) { Ok(s) => s, Err(_) => return };
        let prev = State::HunkZero(DiffType::Unified, None);
        let out = new_line_state(s, s, &prev, config);
        match b[0] {
            b'-' => assert!(matches!(out, Some(State::HunkMinus(DiffType::Unified, None)))),
            b'+' => assert!(matches!(out, Some(State::HunkPlus(DiffType::Unified, None)))),
            b' ' => assert!(matches!(out, Some(State::HunkZero(DiffType::Unified, None)))),
            _ => assert!(out.is_none()),
        }
        std::mem::forget(out); std::mem::forget(prev);
    }
    #[kani::proof]
    #[kani::unwind(5)]
    #[kani::stub(is_word_diff, stub_is_word_diff)]
    #[kani::stub(std::fmt::format, stub_format)]
    fn n2_combined_no_panic() {
        let config = cfg();
        let b: [u8; 3] = kani::any();
        let s = match std::str::from_utf8(&b) { Ok(s) => s, Err(_) => return };
        let prev = State::HunkZero(DiffType::Combined(MergeParents::Number(2), InMergeConflict::No), None);
        let out = new_line_state(s, s, &prev, config);
        std::mem::forget(out); std::mem::forget(prev);
    }
}
