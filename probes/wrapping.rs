// PROBE SNIPPETS (design phase, 2026-10-04) - appended to src/wrapping.rs of a scratch copy of /repo.
// Not registered harnesses; see DESIGN.md section 4 for which ones finished.

#[cfg(kani)]
mod kani_probe {
    use super::*;
    #[kani::proof]
    fn r7_config_max_line_length() {
        let wc = WrapConfig { left_symbol: String::new(), right_symbol: String::new(), right_prefix_symbol: String::new(), use_wrap_right_permille: 370, max_lines: kani::any(), inline_hint_syntect_style: SyntectStyle::default() };
        let (mll, w): (usize, usize) = (kani::any(), kani::any());
        kani::assume(w <= 100_000);
        let r = wc.config_max_line_length(mll, w);
        if wc.max_lines == 1 { assert!(r == mll); }
        std::mem::forget(wc);
    }
}

#[cfg(kani)]
mod kani_probe2 {
    use super::*;
    use std::mem::MaybeUninit;
    use std::ptr::addr_of_mut;
    fn check(text: &'static str, k: usize) {
        let cfg: &'static mut MaybeUninit<Config> = Box::leak(Box::new(MaybeUninit::uninit()));
        let p = cfg.as_mut_ptr();
        let ml: usize = kani::any(); kani::assume(ml <= 3 && ml != 1);
        let pm: usize = kani::any(); kani::assume(pm <= 1000);
        unsafe { addr_of_mut!((*p).wrap_config).write(WrapConfig { left_symbol: "<".into(), right_symbol: ">".into(), right_prefix_symbol: "~".into(), use_wrap_right_permille: pm, max_lines: ml, inline_hint_syntect_style: SyntectStyle::default() }); }
        let config: &Config = unsafe { &*p };
        let w: usize = kani::any(); kani::assume(w >= 2 && w <= 6);
        let line: Vec<(u8, &str)> = vec![(1, &text[..k]), (2, &text[k..])];
        let rows = wrap_line(config, line, w, &77u8, &Some(99u8));
        let mut pos = 0usize;
        for row in rows.iter() {
            for (st, s) in row.iter() {
                if *st == 1 || *st == 2 { assert!(pos + s.len() <= text.len() && &text[pos..pos + s.len()] == *s); pos += s.len(); }
            }
        }
        assert!(pos == text.len());
        std::mem::forget(rows);
    }
    #[kani::proof]
    #[kani::unwind(12)]
    fn r10_wrap_line() { check("abcd\n", 2); }
}
