// PROBE SNIPPETS (design phase, 2026-10-04) - appended to src/utils/tabs.rs of a scratch copy of /repo.
// Not registered harnesses; see DESIGN.md section 4 for which ones finished.

#[cfg(kani)]
mod kani_probe {
    use super::*;
    #[kani::proof]
    #[kani::unwind(8)]
    fn q4_tabs() {
        let mut b = [b'+', 0, 0, 0];
        for i in 1..4 { let c: u8 = kani::any(); kani::assume(c == b'\t' || c == b'x'); b[i] = c; }
        let s = unsafe { std::str::from_utf8_unchecked(&b) };
        let cfg = TabCfg { replacement: "  ".to_string() };
        let r = expand(&s[1..], &cfg);
        let mut want = 0; for i in 1..4 { want += if b[i] == b'\t' { 2 } else { 1 }; }
        assert!(r.len() == want);
        std::mem::forget(r);
    }
}
