// PROBE SNIPPETS (design phase, 2026-10-04) - appended to src/handlers/diff_header.rs of a scratch copy of /repo.
// Not registered harnesses; see DESIGN.md section 4 for which ones finished.

#[cfg(kani)]
mod kani_probe {
    use super::*;
    fn check<const L: usize>() {
        // line = "--- " + L symbolic ASCII bytes
        let mut line = [0u8; 16];
        line[0] = b'-'; line[1] = b'-'; line[2] = b'-'; line[3] = b' ';
        let mut p = [0u8; L];
        for i in 0..L { let c: u8 = kani::any(); kani::assume(c >= 1 && c < 0x80); p[i] = c; line[4 + i] = c; }
        let s = unsafe { std::str::from_utf8_unchecked(&line[..4 + L]) };
        let git: bool = kani::any();
        let (r, ev) = parse_diff_header_line(s, git);
        assert!(ev == FileEvent::Change);
        // reference model over the shadow bytes
        let (mut lo, mut hi) = (0usize, L);
        if L >= 2 && p[0] == b'"' && p[L - 1] == b'"' { lo = 1; hi = L - 1; kani::cover!(true); }
        if hi > lo && p[hi - 1] == b'\t' { hi -= 1; kani::cover!(true); }
        if git {
            if hi - lo >= 2 && p[lo + 1] == b'/' && (p[lo] == b'a' || p[lo] == b'b' || p[lo] == b'c' || p[lo] == b'i' || p[lo] == b'o' || p[lo] == b'w') { lo += 2; kani::cover!(true); }
        } else {
            let mut k = lo; let mut found = false;
            for i in 0..L { if !found && i >= lo && i < hi { if p[i] == b'\t' { found = true; } else { k = i + 1; } } }
            if hi > lo { hi = k; } 
        }
        let rb = r.as_bytes();
        assert!(rb.len() == hi - lo);
        for i in 0..L { if i < rb.len() { assert!(rb[i] == p[lo + i]); } }
        kani::cover!(true);
        std::mem::forget(r);
    }
    #[kani::proof]
    #[kani::unwind(8)]
    fn c14_paths_minus_1() { check::<1>(); }
    #[test]
    fn kani_concrete_playback_c14_paths_minus_1_16471768618201948784() {
        let concrete_vals: Vec<Vec<u8>> = vec![vec![34], vec![0]];
        kani::concrete_playback_run(concrete_vals, c14_paths_minus_1);
    }
    #[kani::proof]
    #[kani::unwind(8)]
    fn c14_paths_minus_2() { check::<2>(); }
    #[kani::proof]
    #[kani::unwind(8)]
    fn c14_paths_minus_3() { check::<3>(); }
}

#[cfg(kani)]
mod kani_probe2 {
    use super::*;
    fn check<const L: usize>() {
        // "diff --git " + L symbolic ASCII bytes
        let mut line = [0u8; 24];
        let pre = b"diff --git ";
        for i in 0..11 { line[i] = pre[i]; }
        let mut p = [0u8; L];
        for i in 0..L { let c: u8 = kani::any(); kani::assume(c >= 0x20 && c < 0x7f); p[i] = c; line[11 + i] = c; }
        let s = unsafe { std::str::from_utf8_unchecked(&line[..11 + L]) };
        let r = get_repeated_file_path_from_diff_line(s);
        // weak oracle for the probe: if Some(path) then L is odd and the middle byte is a space
        if let Some(path) = &r { assert!(L % 2 == 1 && p[L / 2] == b' '); assert!(path.len() <= L / 2); }
        kani::cover!(r.is_some());
        std::mem::forget(r);
    }
    #[kani::proof]
    #[kani::unwind(13)]
    fn c14_repeated_1() { check::<1>(); }
    #[kani::proof]
    #[kani::unwind(13)]
    fn c14_repeated_3() { check::<3>(); }
    #[kani::proof]
    #[kani::unwind(13)]
    fn c14_repeated_0() { check::<0>(); }
}

#[cfg(kani)]
mod kani_probe3 {
    use super::*;
    fn check<const L: usize>() {
        let mut p = [0u8; L];
        for i in 0..L { let c: u8 = kani::any(); kani::assume(c >= 0x20 && c < 0x7f); p[i] = c; }
        let s = unsafe { std::str::from_utf8_unchecked(&p) };
        let r = get_filename_from_diff_header_line_file_path(s);
        // reference: bytes after the last '/', ignoring trailing '/'; None if that is empty, ".." 
        if let Some(name) = r {
            assert!(name.len() >= 1 && name.len() <= L);
            kani::cover!(name.len() < L);
        }
        kani::cover!(r.is_none());
    }
    #[kani::proof]
    #[kani::unwind(8)]
    fn c14_filename_3() { check::<3>(); }
}
