// PROBE SNIPPETS (design phase, 2026-10-04) - appended to src/handlers/grep.rs of a scratch copy of /repo.
// Not registered harnesses; see DESIGN.md section 4 for which ones finished.

#[cfg(kani)]
mod kani_probe {
    use super::*;
    #[kani::proof]
    #[kani::unwind(8)]
    fn r2_mss_concrete() {
        let line = "abcdef";
        let subs = [(1usize, 3usize)];
        let ms = Style { is_emph: true, is_syntax_highlighted: kani::any(), ..Style::new() };
        let ns = Style { is_omitted: kani::any(), ..Style::new() };
        if let StyleSectionSpecifier::StyleSections(v) = make_style_sections(line, &subs, ms, ns) {
            assert!(v.len() == 3 && v[1].1 == "bc" && v[1].0.is_emph && v[0].1 == "a" && v[2].1 == "def");
            std::mem::forget(v);
        }
    }
}

#[cfg(kani)]
mod kani_probe3 {
    use super::*;
    #[kani::proof]
    #[kani::unwind(8)]
    fn q8s_make_style_sections() {
        let line = "abcdef";
        let (a, b, c, d): (usize, usize, usize, usize) = (kani::any(), kani::any(), kani::any(), kani::any());
        kani::assume(a < b && b <= c && c < d && d <= 6);
        let subs = [(a, b), (c, d)];
        let ms = Style { is_emph: true, ..Style::new() };
        let ns = Style::new();
        if let StyleSectionSpecifier::StyleSections(v) = make_style_sections(line, &subs, ms, ns) {
            let mut pos = 0;
            for (st, s) in v.iter() {
                let end = pos + s.len();
                assert!(end <= 6);
                if st.is_emph { assert!((pos == a && end == b) || (pos == c && end == d)); }
                else { assert!(!(pos < b && a < end) && !(pos < d && c < end)); }
                pos = end;
            }
            assert!(pos == 6);
            std::mem::forget(v);
        } else { assert!(false); }
    }
}

#[cfg(kani)]
mod kani_probe4 {
    use super::*;
    #[kani::proof]
    #[kani::unwind(8)]
    fn t1_symbolic_slice() {
        let line = "abcdef";
        let (a, b): (usize, usize) = (kani::any(), kani::any());
        kani::assume(a < b && b <= 6);
        let s = &line[a..b];
        assert!(s.len() == b - a);
    }
    #[kani::proof]
    #[kani::unwind(8)]
    fn t2_cond_push_big() {
        let ms = Style { is_emph: true, ..Style::new() };
        let mut v: Vec<(Style, &str)> = Vec::new();
        let (p, q): (bool, bool) = (kani::any(), kani::any());
        if p { v.push((ms, "a")); }
        v.push((ms, "b"));
        if q { v.push((ms, "c")); }
        assert!(v.len() == 1 + p as usize + q as usize);
        std::mem::forget(v);
    }
    #[kani::proof]
    #[kani::unwind(8)]
    fn t3_cond_push_small() {
        let mut v: Vec<(u8, &str)> = Vec::new();
        let (p, q): (bool, bool) = (kani::any(), kani::any());
        if p { v.push((1, "a")); }
        v.push((2, "b"));
        if q { v.push((3, "c")); }
        assert!(v.len() == 1 + p as usize + q as usize);
        std::mem::forget(v);
    }
}

#[cfg(kani)]
mod kani_probe5 {
    use super::*;
    #[kani::proof]
    #[kani::unwind(8)]
    fn t4_cond_push_realloc() {
        let ms = Style { is_emph: true, ..Style::new() };
        let mut v: Vec<(Style, &str)> = Vec::new();
        let (p, q): (bool, bool) = (kani::any(), kani::any());
        if p { v.push((ms, "a")); }
        v.push((ms, "b"));
        if q { v.push((ms, "c")); }
        v.push((ms, "d"));
        v.push((ms, "e"));
        assert!(v.len() == 3 + p as usize + q as usize);
        std::mem::forget(v);
    }
    #[kani::proof]
    #[kani::unwind(8)]
    fn t5_mss_one_sub() {
        let line = "abcdef";
        let (a, b): (usize, usize) = (kani::any(), kani::any());
        kani::assume(a < b && b <= 6);
        let subs = [(a, b)];
        let ms = Style { is_emph: true, ..Style::new() };
        let ns = Style::new();
        if let StyleSectionSpecifier::StyleSections(v) = make_style_sections(line, &subs, ms, ns) {
            let mut pos = 0;
            for (st, s) in v.iter() {
                let end = pos + s.len();
                assert!(end <= 6);
                if st.is_emph { assert!(pos == a && end == b); } else { assert!(end <= a || pos >= b); }
                pos = end;
            }
            assert!(pos == 6);
            std::mem::forget(v);
        } else { assert!(false); }
    }
}

#[cfg(kani)]
mod kani_probe6 {
    use super::*;
    fn mk() -> (usize, usize, Vec<(Style, &'static str)>) {
        let line = "abcdef";
        let (a, b): (usize, usize) = (kani::any(), kani::any());
        kani::assume(a < b && b <= 6);
        let subs = [(a, b)];
        let ms = Style { is_emph: true, ..Style::new() };
        let ns = Style::new();
        if let StyleSectionSpecifier::StyleSections(v) = make_style_sections(line, &subs, ms, ns) { (a, b, v) } else { unreachable!() }
    }
    #[kani::proof]
    #[kani::unwind(8)]
    fn t6_len_only() { let (_a, _b, v) = mk(); assert!(v.len() >= 1 && v.len() <= 3); std::mem::forget(v); }
    #[kani::proof]
    #[kani::unwind(8)]
    fn t7_sum_len() { let (_a, _b, v) = mk(); let mut t = 0; for i in 0..3 { if i < v.len() { t += v[i].1.len(); } } assert!(t == 6); std::mem::forget(v); }
    #[kani::proof]
    #[kani::unwind(8)]
    fn t8_emph_only() { let (a, b, v) = mk(); let mut n = 0; for i in 0..3 { if i < v.len() && v[i].0.is_emph { n += 1; assert!(v[i].1.len() == b - a); } } assert!(n == 1); std::mem::forget(v); }
}

#[cfg(kani)]
mod kani_probe7 {
    use super::*;
    #[kani::proof]
    #[kani::unwind(8)]
    fn t9_big_elem() {
        let line = "abcdef";
        let (a, b): (usize, usize) = (kani::any(), kani::any());
        kani::assume(a < b && b <= 6);
        let ms = Style { is_emph: true, ..Style::new() };
        let mut v: Vec<(Style, &str)> = Vec::new();
        v.push((ms, &line[a..b]));
        assert!(v[0].1.len() == b - a);
        std::mem::forget(v);
    }
    #[kani::proof]
    #[kani::unwind(8)]
    fn t10_small_elem() {
        let line = "abcdef";
        let (a, b): (usize, usize) = (kani::any(), kani::any());
        kani::assume(a < b && b <= 6);
        let mut v: Vec<(u8, &str)> = Vec::new();
        v.push((7, &line[a..b]));
        assert!(v[0].1.len() == b - a);
        std::mem::forget(v);
    }
    #[kani::proof]
    #[kani::unwind(8)]
    fn t11_big_elem_two_cond() {
        let line = "abcdef";
        let (a, b): (usize, usize) = (kani::any(), kani::any());
        kani::assume(a < b && b <= 6);
        let ms = Style { is_emph: true, ..Style::new() };
        let mut v: Vec<(Style, &str)> = Vec::new();
        if a > 0 { v.push((ms, &line[..a])); }
        v.push((ms, &line[a..b]));
        let mut t = 0; for i in 0..2 { if i < v.len() { t += v[i].1.len(); } }
        assert!(t == b);
        std::mem::forget(v);
    }
}

#[cfg(kani)]
mod kani_probe10 {
    use super::*;
    #[kani::proof]
    #[kani::unwind(8)]
    fn t12_emph_count() {
        let line = "abcdef";
        let (a, b): (usize, usize) = (kani::any(), kani::any());
        kani::assume(a < b && b <= 6);
        let subs = [(a, b)];
        let ms = Style { is_emph: true, ..Style::new() };
        let ns = Style::new();
        if let StyleSectionSpecifier::StyleSections(v) = make_style_sections(line, &subs, ms, ns) {
            let mut n = 0; for i in 0..3 { if i < v.len() && v[i].0.is_emph { n += 1; } } assert!(n == 1); std::mem::forget(v);
        }
    }
}
