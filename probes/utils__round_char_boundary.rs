// PROBE SNIPPETS (design phase, 2026-10-04) - appended to src/utils/round_char_boundary.rs of a scratch copy of /repo.
// Not registered harnesses; see DESIGN.md section 4 for which ones finished.

#[cfg(kani)]
mod kani_probe {
    use super::*;
    #[kani::proof]
    #[kani::unwind(8)]
    fn r5_floor_char_boundary() {
        let b: [u8; 5] = kani::any();
        if let Ok(s) = std::str::from_utf8(&b) {
            let i: usize = kani::any();
            kani::assume(i <= 8);
            let f = floor_char_boundary(s, i);
            assert!(f <= i.min(5) && s.is_char_boundary(f));
            assert!(i.min(5) - f < 4);
        }
    }
}
