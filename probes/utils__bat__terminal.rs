// PROBE SNIPPETS (design phase, 2026-10-04) - appended to src/utils/bat/terminal.rs of a scratch copy of /repo.
// Not registered harnesses; see DESIGN.md section 4 for which ones finished.

#[cfg(kani)]
mod kani_probe {
    use super::*;
    #[kani::proof]
    fn r3_to_ansi_color() {
        let c = highlighting::Color { r: kani::any(), g: kani::any(), b: kani::any(), a: kani::any() };
        let tc: bool = kani::any();
        let out = to_ansi_color(c, tc);
        if c.a == 1 { assert!(out.is_none()); }
        else if c.a == 0 { assert!(out.is_some()); if c.r >= 8 { assert!(out == Some(Fixed(c.r))); } }
        else if tc { assert!(out == Some(RGB(c.r, c.g, c.b))); }
        else { assert!(matches!(out, Some(Fixed(n)) if n >= 16)); }
    }
}
