// PROBE SNIPPETS (design phase, 2026-10-04) - appended to src/features/hyperlinks.rs of a scratch copy of /repo.
// Not registered harnesses; see DESIGN.md section 4 for which ones finished.

#[cfg(kani)]
mod kani_probe {
    use super::*;
    #[kani::proof]
    #[kani::unwind(8)]
    fn q9_osc8() {
        let mut u = [0u8; 2]; let mut t = [0u8; 2];
        for i in 0..2 { let c: u8 = kani::any(); kani::assume(c >= 0x20 && c < 0x7f); u[i] = c; let c: u8 = kani::any(); kani::assume(c >= 0x20 && c < 0x7f); t[i] = c; }
        let (us, ts) = unsafe { (std::str::from_utf8_unchecked(&u), std::str::from_utf8_unchecked(&t)) };
        let r = format_osc8_hyperlink(us, ts);
        let rb = r.as_bytes();
        assert!(rb.len() == 5 + 2 + 2 + 2 + 5 + 2);
        assert!(rb[0] == 0x1b && rb[1] == b']' && rb[2] == b'8' && rb[3] == b';' && rb[4] == b';');
        assert!(rb[5] == u[0] && rb[6] == u[1] && rb[7] == 0x1b && rb[8] == b'\\' && rb[9] == t[0] && rb[10] == t[1]);
        std::mem::forget(r);
    }
}
