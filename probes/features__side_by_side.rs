// PROBE SNIPPETS (design phase, 2026-10-04) - appended to src/features/side_by_side.rs of a scratch copy of /repo.
// Not registered harnesses; see DESIGN.md section 4 for which ones finished.

#[cfg(kani)]
mod kani_probe {
    use super::*;
    use std::mem::MaybeUninit;
    use std::ptr::addr_of_mut;
    use crate::wrapping::WrapConfig;

    fn cfg(c: &mut MaybeUninit<Config>) -> &Config {
        let p = c.as_mut_ptr();
        let plain = Style::new();
        unsafe {
            addr_of_mut!((*p).line_fill_method).write(BgFillMethod::Spaces);
            addr_of_mut!((*p).wrap_config).write(WrapConfig { left_symbol: String::new(), right_symbol: String::new(), right_prefix_symbol: String::new(), use_wrap_right_permille: 0, max_lines: 1, inline_hint_syntect_style: SyntectStyle::default() });
            addr_of_mut!((*p).keep_plus_minus_markers).write(false);
            addr_of_mut!((*p).line_numbers_style_minusplus).write(MinusPlus::new(plain, plain));
            addr_of_mut!((*p).line_numbers_zero_style).write(plain);
            addr_of_mut!((*p).line_numbers_style_leftright).write(MinusPlus::new(plain, plain));
            addr_of_mut!((*p).side_by_side).write(true);
            addr_of_mut!((*p).true_color).write(true);
            addr_of_mut!((*p).null_syntect_style).write(SyntectStyle::default());
            addr_of_mut!((*p).minus_empty_line_marker_style).write(plain);
            addr_of_mut!((*p).plus_empty_line_marker_style).write(plain);
            addr_of_mut!((*p).side_by_side_data).write(SideBySideData::new(Panel { width: 1 }, Panel { width: 1 }));
            addr_of_mut!((*p).null_style).write(plain);
            addr_of_mut!((*p).minus_style).write(plain);
            addr_of_mut!((*p).plus_style).write(plain);
            addr_of_mut!((*p).hyperlinks).write(false);
            addr_of_mut!((*p).background_color_extends_to_terminal_width).write(false);
            &*p
        }
    }

    #[kani::proof]
    #[kani::unwind(6)]
    fn s3_sbs_counter_compensation() {
        let mut cfg_mem = MaybeUninit::<Config>::uninit();
        let config = cfg(&mut cfg_mem);
        let minus: Vec<(String, State)> = vec![("\n".to_string(), State::HunkMinus(DiffType::Unified, None)), ("\n".to_string(), State::HunkMinus(DiffType::Unified, None))];
        let plus: Vec<(String, State)> = vec![("\n".to_string(), State::HunkPlus(DiffType::Unified, None)), ("\n".to_string(), State::HunkPlus(DiffType::Unified, None))];
        let syn = LeftRight::new(vec![Vec::new(), Vec::new()], vec![Vec::new(), Vec::new()]);
        let dif = LeftRight::new(vec![Vec::new(), Vec::new()], vec![Vec::new(), Vec::new()]);
        let hom = LeftRight::new(vec![true, false], vec![true, false]);
        let alignment = vec![(Some(0), Some(0)), (Some(1), None), (None, Some(1))];
        let (l, r): (usize, usize) = (kani::any(), kani::any());
        kani::assume(l < usize::MAX - 4 && r < usize::MAX - 4);
        let mut data = Some(LineNumbersData::default());
        data.as_mut().unwrap().line_number = MinusPlus::new(l, r);
        let mut out = String::new();
        paint_minus_and_plus_lines_side_by_side(LeftRight::new(&minus, &plus), syn, dif, hom, alignment, &mut data, &mut out, config);
        let d = data.as_ref().unwrap();
        assert!(d.line_number[Left] == l + 2);
        assert!(d.line_number[Right] == r + 2);
        std::mem::forget(data); std::mem::forget(out); std::mem::forget(minus); std::mem::forget(plus);
    }
}

#[cfg(kani)]
mod kani_probe_s4 {
    use super::*;
    use std::mem::MaybeUninit;
    use std::ptr::addr_of_mut;
    use crate::wrapping::WrapConfig;

    static mut LOG_SIDE: [u8; 8] = [0; 8];
    static mut LOG_NUM: [Option<usize>; 8] = [None; 8];
    static mut NLOG: usize = 0;

    fn stub_format_and_paint<'a>(
        _d: &'a LineNumbersData, panel: Option<PanelSide>, _styles: MinusPlus<Style>, nums: MinusPlus<Option<usize>>, _c: &'a Config,
    ) -> Vec<ansi_term::ANSIGenericString<'a, str>> {
        unsafe {
            if NLOG < 8 {
                match panel { Some(Left) => { LOG_SIDE[NLOG] = 1; LOG_NUM[NLOG] = nums[Minus]; } Some(Right) => { LOG_SIDE[NLOG] = 2; LOG_NUM[NLOG] = nums[Plus]; } None => { LOG_SIDE[NLOG] = 3; } }
                NLOG += 1;
            }
        }
        Vec::with_capacity(1)
    }
    fn stub_superimpose(_a: &[(SyntectStyle, &str)], _b: &[(Style, &str)], _t: bool, _n: SyntectStyle) -> Vec<(Style, String)> { Vec::new() }
    #[allow(clippy::too_many_arguments)]
    fn stub_pad(_l: &mut String, _e: bool, _i: Option<usize>, _d: &[LineSections<'_, Style>], _h: Option<&[bool]>, _s: &State, _p: PanelSide, _b: BgShouldFill, _c: &Config) {}

    fn cfg(c: &mut MaybeUninit<Config>) -> &Config {
        let p = c.as_mut_ptr();
        let plain = Style::new();
        unsafe {
            addr_of_mut!((*p).line_fill_method).write(BgFillMethod::Spaces);
            addr_of_mut!((*p).wrap_config).write(WrapConfig { left_symbol: String::new(), right_symbol: String::new(), right_prefix_symbol: String::new(), use_wrap_right_permille: 0, max_lines: 1, inline_hint_syntect_style: SyntectStyle::default() });
            addr_of_mut!((*p).keep_plus_minus_markers).write(false);
            addr_of_mut!((*p).line_numbers_style_minusplus).write(MinusPlus::new(plain, plain));
            addr_of_mut!((*p).line_numbers_zero_style).write(plain);
            addr_of_mut!((*p).line_numbers_style_leftright).write(MinusPlus::new(plain, plain));
            addr_of_mut!((*p).side_by_side).write(true);
            addr_of_mut!((*p).true_color).write(true);
            addr_of_mut!((*p).null_syntect_style).write(SyntectStyle::default());
            addr_of_mut!((*p).minus_style).write(plain);
            addr_of_mut!((*p).plus_style).write(plain);
            &*p
        }
    }

    #[kani::proof]
    #[kani::unwind(6)]
    #[kani::stub(crate::features::line_numbers::format_and_paint_line_numbers, stub_format_and_paint)]
    #[kani::stub(crate::paint::superimpose_style_sections, stub_superimpose)]
    #[kani::stub(pad_panel_line_to_width, stub_pad)]
    fn s4_sbs_numbering() {
        let mut cfg_mem = MaybeUninit::<Config>::uninit();
        let config = cfg(&mut cfg_mem);
        let minus: Vec<(String, State)> = vec![(String::new(), State::HunkMinus(DiffType::Unified, None)), (String::new(), State::HunkMinus(DiffType::Unified, None))];
        let plus: Vec<(String, State)> = vec![(String::new(), State::HunkPlus(DiffType::Unified, None)), (String::new(), State::HunkPlus(DiffType::Unified, None))];
        let syn = LeftRight::new(vec![Vec::new(), Vec::new()], vec![Vec::new(), Vec::new()]);
        let dif = LeftRight::new(vec![Vec::new(), Vec::new()], vec![Vec::new(), Vec::new()]);
        let hom = LeftRight::new(vec![true, false], vec![true, false]);
        let alignment = vec![(Some(0), Some(0)), (Some(1), None), (None, Some(1))];
        let (l, r): (usize, usize) = (kani::any(), kani::any());
        kani::assume(l < usize::MAX - 4 && r < usize::MAX - 4);
        let mut data = Some(LineNumbersData::default());
        data.as_mut().unwrap().line_number = MinusPlus::new(l, r);
        let mut out = String::new();
        paint_minus_and_plus_lines_side_by_side(LeftRight::new(&minus, &plus), syn, dif, hom, alignment, &mut data, &mut out, config);
        let d = data.as_ref().unwrap();
        assert!(d.line_number[Left] == l + 2);
        assert!(d.line_number[Right] == r + 2);
        unsafe {
            assert!(NLOG == 6);
            assert!(LOG_SIDE[0] == 1 && LOG_NUM[0] == Some(l));
            assert!(LOG_SIDE[1] == 2 && LOG_NUM[1] == Some(r));
            assert!(LOG_SIDE[2] == 1 && LOG_NUM[2] == Some(l + 1));
            assert!(LOG_SIDE[3] == 2 && LOG_NUM[3] == None);
            assert!(LOG_SIDE[4] == 1 && LOG_NUM[4] == None);
            assert!(LOG_SIDE[5] == 2 && LOG_NUM[5] == Some(r + 1));
        }
        std::mem::forget(data); std::mem::forget(out); std::mem::forget(minus); std::mem::forget(plus);
    }
    #[kani::proof]
    #[kani::unwind(4)]
    #[kani::stub(crate::features::line_numbers::format_and_paint_line_numbers, stub_format_and_paint)]
    #[kani::stub(crate::paint::superimpose_style_sections, stub_superimpose)]
    #[kani::stub(pad_panel_line_to_width, stub_pad)]
    fn s5_sbs_row_paired() {
        let mut cfg_mem = MaybeUninit::<Config>::uninit();
        let config = cfg(&mut cfg_mem);
        let minus: Vec<(String, State)> = vec![(String::new(), State::HunkMinus(DiffType::Unified, None))];
        let plus: Vec<(String, State)> = vec![(String::new(), State::HunkPlus(DiffType::Unified, None))];
        let syn = LeftRight::new(vec![Vec::new()], vec![Vec::new()]);
        let dif = LeftRight::new(vec![Vec::new()], vec![Vec::new()]);
        let hom = LeftRight::new(vec![true], vec![true]);
        let alignment = vec![(Some(0), Some(0))];
        let (l, r): (usize, usize) = (kani::any(), kani::any());
        kani::assume(l < usize::MAX - 4 && r < usize::MAX - 4);
        let mut data = Some(LineNumbersData::default());
        data.as_mut().unwrap().line_number = MinusPlus::new(l, r);
        let mut out = String::new();
        paint_minus_and_plus_lines_side_by_side(LeftRight::new(&minus, &plus), syn, dif, hom, alignment, &mut data, &mut out, config);
        let d = data.as_ref().unwrap();
        assert!(d.line_number[Left] == l + 1);
        assert!(d.line_number[Right] == r + 1);
        unsafe {
            assert!(NLOG == 2);
            assert!(LOG_SIDE[0] == 1 && LOG_NUM[0] == Some(l));
            assert!(LOG_SIDE[1] == 2 && LOG_NUM[1] == Some(r));
        }
        std::mem::forget(data); std::mem::forget(out); std::mem::forget(minus); std::mem::forget(plus);
    }
}
