// PROBE SNIPPETS (design phase, 2026-10-04) - appended to src/features/line_numbers.rs of a scratch copy of /repo.
// Not registered harnesses; see DESIGN.md section 4 for which ones finished.

#[cfg(kani)]
mod kani_probe {
    use super::*;
    use std::mem::MaybeUninit;
    use std::ptr::addr_of_mut;
    use crate::delta::DiffType;
    #[kani::proof]
    #[kani::unwind(4)]
    fn q6_linenumbers_step() {
        let cfg: &'static mut MaybeUninit<config::Config> = Box::leak(Box::new(MaybeUninit::uninit()));
        let p = cfg.as_mut_ptr();
        unsafe {
            addr_of_mut!((*p).line_numbers_style_minusplus).write(MinusPlus::new(Style::new(), Style::new()));
            addr_of_mut!((*p).line_numbers_zero_style).write(Style::new());
        }
        let config: &config::Config = unsafe { &*p };
        let mut data = LineNumbersData::default();
        let (l, r): (usize, usize) = (kani::any(), kani::any());
        kani::assume(l < usize::MAX && r < usize::MAX);
        data.line_number = MinusPlus::new(l, r);
        let k: u8 = kani::any(); kani::assume(k < 6);
        let inc: bool = kani::any();
        let state = match k { 0 => State::HunkMinus(DiffType::Unified, None), 1 => State::HunkZero(DiffType::Unified, None), 2 => State::HunkPlus(DiffType::Unified, None), 3 => State::HunkMinusWrapped, 4 => State::HunkZeroWrapped, _ => State::HunkPlusWrapped };
        let out = linenumbers_and_styles(&mut data, &state, config, inc).unwrap();
        let i = inc as usize;
        match k {
            0 => { assert!(out.0[Minus] == Some(l) && out.0[Plus] == None); assert!(data.line_number[Left] == l + i && data.line_number[Right] == r); }
            1 => { assert!(out.0[Minus] == Some(l) && out.0[Plus] == Some(r)); assert!(data.line_number[Left] == l + i && data.line_number[Right] == r + i); }
            2 => { assert!(out.0[Minus] == None && out.0[Plus] == Some(r)); assert!(data.line_number[Left] == l && data.line_number[Right] == r + i); }
            _ => { assert!(out.0[Minus] == None && out.0[Plus] == None); assert!(data.line_number[Left] == l && data.line_number[Right] == r); }
        }
        std::mem::forget(state); std::mem::forget(data);
    }
}
