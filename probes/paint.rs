// PROBE SNIPPETS (design phase, 2026-10-04) - appended to src/paint.rs of a scratch copy of /repo.
// Not registered harnesses; see DESIGN.md section 4 for which ones finished.

#[cfg(kani)]
mod kani_probe {
    use super::superimpose_style_sections::superimpose_style_sections;
    use crate::style::Style;
    use syntect::highlighting::{Color as SC, FontStyle, Style as SS};
    fn any_color() -> Option<ansi_term::Color> {
        let k: u8 = kani::any();
        match k % 4 { 0 => None, 1 => Some(ansi_term::Color::Red), 2 => Some(ansi_term::Color::Fixed(kani::any())), _ => Some(ansi_term::Color::RGB(kani::any(), kani::any(), kani::any())) }
    }
    #[kani::proof]
    #[kani::unwind(4)]
    fn r1b_superimpose_lenonly() {
        let text = "a\n";
        let d = Style { ansi_term_style: ansi_term::Style { foreground: any_color(), background: any_color(), is_bold: kani::any(), ..ansi_term::Style::new() },
            is_emph: kani::any(), is_omitted: false, is_raw: false, is_syntax_highlighted: kani::any(), decoration_style: crate::style::DecorationStyle::NoDecoration };
        let ss = SS { foreground: SC { r: kani::any(), g: kani::any(), b: kani::any(), a: kani::any() }, background: SC::BLACK, font_style: FontStyle::empty() };
        let null = SS { foreground: SC { r: kani::any(), g: kani::any(), b: kani::any(), a: kani::any() }, background: SC::BLACK, font_style: FontStyle::empty() };
        let out = superimpose_style_sections(&[(ss, text)], &[(d, text)], kani::any(), null);
        assert!(out.len() == 1);
        std::mem::forget(out);
    }
    #[kani::proof]
    #[kani::unwind(4)]
    fn r1_superimpose_min() {
        let text = "a\n";
        let d = Style { ansi_term_style: ansi_term::Style { foreground: any_color(), background: any_color(), is_bold: kani::any(), ..ansi_term::Style::new() },
            is_emph: kani::any(), is_omitted: false, is_raw: false, is_syntax_highlighted: kani::any(), decoration_style: crate::style::DecorationStyle::NoDecoration };
        let ss = SS { foreground: SC { r: kani::any(), g: kani::any(), b: kani::any(), a: kani::any() }, background: SC::BLACK, font_style: FontStyle::empty() };
        let null = SS { foreground: SC { r: kani::any(), g: kani::any(), b: kani::any(), a: kani::any() }, background: SC::BLACK, font_style: FontStyle::empty() };
        let out = superimpose_style_sections(&[(ss, text)], &[(d, text)], kani::any(), null);
        assert!(out.len() == 1);
        let (st, s) = &out[0];
        assert!(s.as_str() == "a");
        assert!(st.ansi_term_style.background == d.ansi_term_style.background && st.ansi_term_style.is_bold == d.ansi_term_style.is_bold && st.is_emph == d.is_emph);
        if !d.is_syntax_highlighted || ss == null { assert!(st.ansi_term_style.foreground == d.ansi_term_style.foreground); }
        std::mem::forget(out);
    }
}
