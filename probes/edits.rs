// PROBE SNIPPETS (design phase, 2026-10-04) - appended to src/edits.rs of a scratch copy of /repo.
// Not registered harnesses; see DESIGN.md section 4 for which ones finished.

#[cfg(kani)]
mod kani_probe {
    use super::*;
    #[derive(Clone, Copy, PartialEq, Debug)]
    enum Op { MinusNoop, PlusNoop, Del, Ins }
    fn sym_line<const L: usize>(buf: &mut [u8; L]) {
        for i in 0..L { let c: u8 = kani::any(); kani::assume(c == b'a' || c == b'b' || c == b' '); buf[i] = c; }
    }
    fn toks<'a>(s: &'a str, n: usize) -> Vec<&'a str> {
        let mut v = Vec::with_capacity(n + 1);
        v.push("");
        for i in 0..n { v.push(&s[i..i + 1]); }
        v
    }
    fn check<const L: usize, const M: usize>() {
        let mut a = [0u8; L]; let mut b = [0u8; M];
        sym_line(&mut a); sym_line(&mut b);
        let (sa, sb) = unsafe { (std::str::from_utf8_unchecked(&a), std::str::from_utf8_unchecked(&b)) };
        let al = align::Alignment::new(toks(sa, L), toks(sb, M));
        let (am, ap, d) = annotate(al, Op::MinusNoop, Op::Del, Op::PlusNoop, Op::Ins, sa, sb);
        let mut km = [0u8; L]; let mut nm = 0; let mut pos = 0;
        for (op, s) in am.iter() {
            assert!(pos + s.len() <= L); 
            for (t, c) in s.bytes().enumerate() { assert!(c == a[pos + t]); if *op != Op::Del { km[nm] = c; nm += 1; } }
            pos += s.len();
        }
        assert!(pos == L);
        let mut kp = [0u8; M]; let mut np = 0; let mut pos = 0;
        for (op, s) in ap.iter() {
            assert!(pos + s.len() <= M);
            for (t, c) in s.bytes().enumerate() { assert!(c == b[pos + t]); if *op != Op::Ins { kp[np] = c; np += 1; } }
            pos += s.len();
        }
        assert!(pos == M);
        assert!(nm == np);
        for i in 0..L { if i < nm && i < M { assert!(km[i] == kp[i]); } }
        assert!(d >= 0.0 && d <= 1.0);
        if L == M { let mut same = true; for i in 0..L { if a[i] != b[i] { same = false; } } if same { assert!(nm == L && d == 0.0); } }
        std::mem::forget(am); std::mem::forget(ap);
    }
    #[kani::proof]
    #[kani::unwind(27)]
    fn r8_annotate_3_3() { check::<3, 3>(); }
    #[kani::proof]
    #[kani::unwind(13)]
    fn r8b_annotate_3_3() { check::<3, 3>(); }
    #[kani::proof]
    #[kani::unwind(18)]
    fn r8c_annotate_2_2() { check::<2, 2>(); }
    fn ascii_width(s: &str) -> usize { s.len() }
    #[kani::proof]
    #[kani::unwind(18)]
    #[kani::stub(<str as UnicodeWidthStr>::width, ascii_width)]
    fn r8d_annotate_2_2_wstub() { check::<2, 2>(); }
    #[kani::proof]
    #[kani::unwind(7)]
    #[kani::stub(<str as UnicodeWidthStr>::width, ascii_width)]
    fn r8e_annotate_2_2_wstub() { check::<2, 2>(); }
    #[kani::proof]
    #[kani::unwind(5)]
    #[kani::stub(<str as UnicodeWidthStr>::width, ascii_width)]
    fn r8f_annotate_1_1_wstub() { check::<1, 1>(); }
    #[kani::proof]
    #[kani::unwind(6)]
    #[kani::stub(<str as UnicodeWidthStr>::width, ascii_width)]
    fn r8g_annotate_2_1_wstub() { check::<2, 1>(); }

    fn stub_tokenize<'a>(line: &'a str, _r: &Regex) -> Vec<&'a str> { toks(line, line.len()) }
    #[kani::proof]
    #[kani::unwind(18)]
    #[kani::stub(tokenize, stub_tokenize)]
    fn r9_infer_edits_2x2() {
        let mut bufs = [[0u8; 2]; 4];
        for b in bufs.iter_mut() { sym_line(b); }
        let l: [&str; 4] = unsafe { [std::str::from_utf8_unchecked(&bufs[0]), std::str::from_utf8_unchecked(&bufs[1]), std::str::from_utf8_unchecked(&bufs[2]), std::str::from_utf8_unchecked(&bufs[3])] };
        let re: &Regex = unsafe { &*Box::leak(Box::new(std::mem::MaybeUninit::<Regex>::uninit())).as_ptr() };
        let (am, ap, al) = infer_edits(vec![l[0], l[1]], vec![l[2], l[3]], vec![Op::MinusNoop; 2], Op::Del, vec![Op::PlusNoop; 2], Op::Ins, re, 1.0, 0.0);
        assert!(am.len() == 2 && ap.len() == 2);
        // max distance 1: i-th minus pairs with i-th plus
        assert!(al.len() == 2 && al[0] == (Some(0), Some(0)) && al[1] == (Some(1), Some(1)));
        std::mem::forget(am); std::mem::forget(ap); std::mem::forget(al);
    }
}

#[cfg(kani)]
mod kani_probe11 {
    use super::*;
    #[derive(Clone, Copy, PartialEq, Debug)]
    enum Op { MinusNoop, PlusNoop, Del, Ins }
    fn stub_tokenize<'a>(_line: &'a str, _r: &Regex) -> Vec<&'a str> { Vec::new() }
    fn stub_annotate<'a, A: Copy + PartialEq + std::fmt::Debug>(
        alignment: align::Alignment<'a>, noop_deletion: A, _deletion: A, noop_insertion: A, _insertion: A, minus_line: &'a str, plus_line: &'a str,
    ) -> (Vec<(A, &'a str)>, Vec<(A, &'a str)>, f64) {
        std::mem::forget(alignment);
        let d: f64 = kani::any();
        kani::assume(d >= 0.0 && d <= 1.0);
        (vec![(noop_deletion, minus_line)], vec![(noop_insertion, plus_line)], d)
    }
    fn check<const M: usize, const P: usize>(max_d: f64) {
        let re: &Regex = unsafe { &*Box::leak(Box::new(std::mem::MaybeUninit::<Regex>::uninit())).as_ptr() };
        let (am, ap, al) = infer_edits(vec!["m"; M], vec!["p"; P], vec![Op::MinusNoop; M], Op::Del, vec![Op::PlusNoop; P], Op::Ins, re, max_d, 0.0);
        assert!(am.len() == M && ap.len() == P);
        let n = al.len();
        assert!(n >= M.max(P) && n <= M + P);
        let (mut nm, mut np) = (0usize, 0usize);
        let mut k = 0;
        while k < M + P {
            if k < n {
                let (a, b) = al[k];
                assert!(a.is_some() || b.is_some());
                if let Some(i) = a { assert!(i == nm); nm += 1; }
                if let Some(j) = b { assert!(j == np); np += 1; }
                if max_d >= 1.0 && k < M.min(P) { assert!(a == Some(k) && b == Some(k)); }
            }
            k += 1;
        }
        assert!(nm == M && np == P);
        std::mem::forget(am); std::mem::forget(ap); std::mem::forget(al);
    }
    #[kani::proof]
    #[kani::unwind(4)]
    #[kani::stub(tokenize, stub_tokenize)]
    #[kani::stub(annotate, stub_annotate)]
    fn r11_pairing_2x2_any() { let d: f64 = kani::any(); kani::assume(d >= 0.0 && d <= 1.0); check::<2, 2>(d); }
    #[kani::proof]
    #[kani::unwind(5)]
    #[kani::stub(tokenize, stub_tokenize)]
    #[kani::stub(annotate, stub_annotate)]
    fn r11_pairing_3x2_one() { check::<3, 2>(1.0); }
}
