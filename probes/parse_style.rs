// PROBE SNIPPETS (design phase, 2026-10-04) - appended to src/parse_style.rs of a scratch copy of /repo.
// Not registered harnesses; see DESIGN.md section 4 for which ones finished.

#[cfg(kani)]
mod kani_probe {
    use super::*;
    fn stub_parse_color(s: &str, _tc: bool, _g: Option<&GitConfig>) -> Option<ansi_term::Color> {
        if s == "red" { Some(ansi_term::Color::Red) } else if s == "7" { Some(ansi_term::Color::Fixed(7)) } else if s == "normal" { None } else { kani::assume(false); None }
    }
    fn stub_fatal<T: AsRef<str> + std::fmt::Display>(_m: T) -> ! { kani::assume(false); loop {} }
    const WORDS: [&str; 6] = ["bold", "UL", "red", "7", "normal", "\"italic\""];
    #[kani::proof]
    #[kani::unwind(14)]
    #[kani::stub(crate::color::parse_color, stub_parse_color)]
    #[kani::stub(crate::fatal, stub_fatal)]
    fn q7_style_grammar() {
        let i: usize = kani::any(); let j: usize = kani::any(); let k: usize = kani::any();
        kani::assume(i < 6 && j < 6 && k < 6);
        let mut s = String::with_capacity(32);
        s.push_str(WORDS[i]); s.push(' '); s.push_str(WORDS[j]); s.push(' '); s.push_str(WORDS[k]);
        let (st, om, raw, syn) = parse_ansi_term_style(&s, None, true, None);
        let idx = [i, j, k];
        // expected
        let mut bold = false; let mut ul = false; let mut it = false; let mut ncol = 0; let mut fg = None; let mut bg = None;
        for t in 0..3 { match idx[t] { 0 => bold = true, 1 => ul = true, 5 => it = true, c => { let col = match c { 2 => Some(ansi_term::Color::Red), 3 => Some(ansi_term::Color::Fixed(7)), _ => None }; if ncol == 0 { fg = col } else if ncol == 1 { bg = col } ncol += 1; } } }
        kani::assume(ncol <= 2);
        assert!(st.is_bold == bold && st.is_underline == ul && st.is_italic == it);
        assert!(st.foreground == fg && st.background == bg);
        assert!(!om && !raw && !syn);
        std::mem::forget(s);
    }
}
