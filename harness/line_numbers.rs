// Kani harnesses for src/features/line_numbers.rs (injected as `mod verif_kani`).
// Property C05 (displayed numbers and counter protocol), C03 (no overflow / panic).
use super::*;
use crate::delta::{DiffType, InMergeConflict, MergeParents};
use std::mem::MaybeUninit;
use std::ptr::addr_of_mut;

// Three distinguishable styles (the oracle reads one scalar flag of each).
fn minus_marker() -> Style {
    Style { is_emph: true, ..Style::new() }
}
fn zero_marker() -> Style {
    Style { is_raw: true, ..Style::new() }
}
fn plus_marker() -> Style {
    Style { is_omitted: true, ..Style::new() }
}
fn is_minus_marker(s: &Style) -> bool {
    s.is_emph && !s.is_raw && !s.is_omitted
}
fn is_zero_marker(s: &Style) -> bool {
    !s.is_emph && s.is_raw && !s.is_omitted
}
fn is_plus_marker(s: &Style) -> bool {
    !s.is_emph && !s.is_raw && s.is_omitted
}

/// `Config` owns regexes and a syntax set and cannot be constructed under Kani; the kernel reads
/// three style fields only. They are written into a stack-allocated `MaybeUninit<Config>`; every
/// other byte stays nondeterministic (DESIGN.md section 4, rule 6).
macro_rules! partial_config {
    ($mem:ident) => {{
        let p = $mem.as_mut_ptr();
        unsafe {
            addr_of_mut!((*p).line_numbers_style_minusplus).write(MinusPlus::new(minus_marker(), plus_marker()));
            addr_of_mut!((*p).line_numbers_zero_style).write(zero_marker());
            &*p
        }
    }};
}

fn any_diff_type() -> DiffType {
    let k: u8 = kani::any();
    kani::assume(k < 3);
    match k {
        0 => DiffType::Unified,
        1 => DiffType::Combined(MergeParents::Number(kani::any()), InMergeConflict::No),
        _ => DiffType::Combined(MergeParents::Unknown, InMergeConflict::Yes),
    }
}

fn state_of_kind(k: u8) -> State {
    match k {
        0 => State::HunkMinus(any_diff_type(), None),
        1 => State::HunkZero(any_diff_type(), None),
        2 => State::HunkPlus(any_diff_type(), None),
        3 => State::HunkMinusWrapped,
        4 => State::HunkZeroWrapped,
        5 => State::HunkPlusWrapped,
        6 => State::Unknown,
        7 => State::CommitMeta,
        _ => State::DiffHeader(DiffType::Unified),
    }
}

/// One step of the counter protocol from an arbitrary counter state.
fn step(max_excluded: bool) {
    let mut mem = MaybeUninit::<config::Config>::uninit();
    let config: &config::Config = partial_config!(mem);
    let mut data = LineNumbersData::default();
    let (l, r): (usize, usize) = (kani::any(), kani::any());
    if max_excluded {
        kani::assume(l < usize::MAX && r < usize::MAX);
    }
    data.line_number = MinusPlus::new(l, r);
    let k: u8 = kani::any();
    kani::assume(k < 9);
    let inc: bool = kani::any();
    let state = state_of_kind(k);
    let out = linenumbers_and_styles(&mut data, &state, config, inc);
    let i = inc as usize;
    let (nl, nr) = (data.line_number[Left], data.line_number[Right]);
    // saturating model: the fixed tree saturates at usize::MAX instead of overflowing
    let (lp, rp) = (l.saturating_add(i), r.saturating_add(i));
    match k {
        0 => {
            let (nums, styles) = out.unwrap();
            assert!(nums[Minus] == Some(l) && nums[Plus].is_none(), "removed line shows its old-file number only");
            assert!(nl == lp && nr == r, "removed line advances the old-file counter only");
            assert!(is_minus_marker(&styles[Minus]) && is_plus_marker(&styles[Plus]), "minus/plus number styles on their own sides");
            kani::cover!(inc, "removed line, incrementing");
        }
        1 => {
            let (nums, styles) = out.unwrap();
            assert!(nums[Minus] == Some(l) && nums[Plus] == Some(r), "unchanged line shows both numbers");
            assert!(nl == lp && nr == rp, "unchanged line advances both counters");
            assert!(is_zero_marker(&styles[Minus]) && is_zero_marker(&styles[Plus]), "unchanged line uses the zero style on both sides");
            kani::cover!(inc, "unchanged line, incrementing");
            kani::cover!(!inc, "unchanged line, left half of a side-by-side row");
        }
        2 => {
            let (nums, styles) = out.unwrap();
            assert!(nums[Minus].is_none() && nums[Plus] == Some(r), "added line shows its new-file number only");
            assert!(nl == l && nr == rp, "added line advances the new-file counter only");
            assert!(is_minus_marker(&styles[Minus]) && is_plus_marker(&styles[Plus]), "minus/plus number styles on their own sides");
            kani::cover!(inc, "added line, incrementing");
        }
        3 | 4 | 5 => {
            let (nums, _styles) = out.unwrap();
            assert!(nums[Minus].is_none() && nums[Plus].is_none(), "continuation row of a wrapped line carries no number");
            assert!(nl == l && nr == r, "continuation row advances nothing");
            kani::cover!(k == 4, "wrapped unchanged row");
        }
        _ => {
            assert!(out.is_none(), "no numbers outside hunk lines");
            assert!(nl == l && nr == r, "counters untouched outside hunk lines");
            kani::cover!(true, "non-hunk state");
        }
    }
    kani::cover!(true, "end of harness reached");
    std::mem::forget(state);
    std::mem::forget(data);
}

#[kani::proof]
#[kani::unwind(4)]
fn c05_step() {
    step(true);
}

/// Same kernel including counters at usize::MAX: must not overflow (C03; finding F4).
#[kani::proof]
#[kani::unwind(4)]
fn c03_linenumbers_step() {
    step(false);
}

/// K consecutive hunk lines of arbitrary kinds in unified view from an arbitrary start (a, b):
/// every displayed number equals start + number of preceding lines of that file (closed form).
fn sequence<const K: usize>() {
    let mut mem = MaybeUninit::<config::Config>::uninit();
    let config: &config::Config = partial_config!(mem);
    let mut data = LineNumbersData::default();
    let (a, b): (usize, usize) = (kani::any(), kani::any());
    kani::assume(a < usize::MAX - K && b < usize::MAX - K);
    data.line_number = MinusPlus::new(a, b);
    let (mut old_before, mut new_before) = (0usize, 0usize);
    let mut n = 0;
    while n < K {
        let k: u8 = kani::any();
        kani::assume(k < 6);
        let state = match k {
            0 => State::HunkMinus(DiffType::Unified, None),
            1 => State::HunkZero(DiffType::Unified, None),
            2 => State::HunkPlus(DiffType::Unified, None),
            3 => State::HunkMinusWrapped,
            4 => State::HunkZeroWrapped,
            _ => State::HunkPlusWrapped,
        };
        let (nums, _) = linenumbers_and_styles(&mut data, &state, config, true).unwrap();
        match k {
            0 => {
                assert!(nums[Minus] == Some(a + old_before) && nums[Plus].is_none(), "k-th line: removed line number is start + preceding old-file lines");
                old_before += 1;
            }
            1 => {
                assert!(nums[Minus] == Some(a + old_before) && nums[Plus] == Some(b + new_before), "k-th line: unchanged line numbers are start + preceding lines per file");
                old_before += 1;
                new_before += 1;
            }
            2 => {
                assert!(nums[Minus].is_none() && nums[Plus] == Some(b + new_before), "k-th line: added line number is start + preceding new-file lines");
                new_before += 1;
            }
            _ => {
                assert!(nums[Minus].is_none() && nums[Plus].is_none(), "k-th line: wrapped row carries no number");
            }
        }
        std::mem::forget(state);
        n += 1;
    }
    assert!(data.line_number[Left] == a + old_before && data.line_number[Right] == b + new_before, "counters after the hunk");
    kani::cover!(old_before == K, "a hunk of only old-file lines");
    kani::cover!(old_before >= 2 && new_before >= 2 && old_before + new_before < 2 * K, "mixed hunk");
    kani::cover!(true, "end of harness reached");
    std::mem::forget(data);
}

#[kani::proof]
#[kani::unwind(5)]
fn c05_unified_sequence_3() {
    sequence::<3>();
}

#[kani::proof]
#[kani::unwind(8)]
fn c05_unified_sequence_6() {
    sequence::<6>();
}

#[kani::proof]
#[kani::unwind(11)]
fn c05_unified_sequence_9() {
    sequence::<9>();
}

/// `LineNumbersData::initialize_hunk`: the counters start at the header's start positions (first
/// entry = old file, last entry = new file, also for merge hunk headers with 3 entries); the
/// gutter is wide enough for every line number the hunk can display (start .. start+length-1 of
/// every file) and never wider than 20 digits; nothing overflows for any header numbers.
///
/// CBMC has no bit-precise `log10`. The stub below is exact where it matters: it returns k for an
/// argument that is exactly 10^k and a value strictly between k and k+1 for an argument strictly
/// between 10^k and 10^(k+1), so `floor`/`ceil`/`trunc` of the result behave as for the real
/// function on every f64 that a usize converts to.
const P10F: [f64; 20] = [
    1e0, 1e1, 1e2, 1e3, 1e4, 1e5, 1e6, 1e7, 1e8, 1e9, 1e10, 1e11, 1e12, 1e13, 1e14, 1e15, 1e16,
    1e17, 1e18, 1e19,
];

fn log10_stub(x: f64) -> f64 {
    if x < 1.0 {
        return f64::NEG_INFINITY; // only 0.0 occurs below 1: the argument is a usize as f64
    }
    let mut k = 0usize;
    let mut i = 1;
    while i < 20 {
        if x >= P10F[i] {
            k = i;
        }
        i += 1;
    }
    if x == P10F[k] {
        k as f64
    } else {
        k as f64 + 0.5
    }
}

const P10U: [usize; 20] = [
    1,
    10,
    100,
    1_000,
    10_000,
    100_000,
    1_000_000,
    10_000_000,
    100_000_000,
    1_000_000_000,
    10_000_000_000,
    100_000_000_000,
    1_000_000_000_000,
    10_000_000_000_000,
    100_000_000_000_000,
    1_000_000_000_000_000,
    10_000_000_000_000_000,
    100_000_000_000_000_000,
    1_000_000_000_000_000_000,
    10_000_000_000_000_000_000,
];

fn digits(n: usize) -> usize {
    let mut d = 1;
    let mut k = 1;
    while k < 20 {
        if n >= P10U[k] {
            d = k + 1;
        }
        k += 1;
    }
    d
}

fn init_hunk<const N: usize>() {
    let mut data = LineNumbersData::default();
    let mut v: Vec<(usize, usize)> = Vec::with_capacity(N);
    let mut shadow = [(0usize, 0usize); N];
    for i in 0..N {
        let e: (usize, usize) = (kani::any(), kani::any());
        shadow[i] = e;
        v.push(e);
    }
    data.initialize_hunk(&v, String::new());
    assert!(data.line_number[Left] == shadow[0].0, "old-file counter starts at the first header entry");
    assert!(data.line_number[Right] == shadow[N - 1].0, "new-file counter starts at the last header entry");
    let w = data.hunk_max_line_number_width;
    assert!(w >= 1 && w <= 20, "gutter width between 1 and 20 digits");
    for i in 0..N {
        let (start, len) = shadow[i];
        // numbers below 2^53 convert to f64 exactly; above that the conversion may round up to
        // the next power of ten, which only makes the gutter wider
        if len >= 1 {
            let last = start.saturating_add(len - 1);
            assert!(w >= digits(last), "gutter is wide enough for the last line number of every file in the hunk");
        }
        if start < (1usize << 53) && len < (1usize << 52) {
            assert!(w <= 20 && (i > 0 || N > 1 || w <= digits(start + len)), "gutter no wider than the digits of start+length when that is the only entry");
        }
    }
    kani::cover!(shadow[N - 1].0 == 9_999 && shadow[N - 1].1 == 1 && shadow[0].0 < 100 && shadow[0].1 < 10, "hunk ends exactly at line 10000");
    kani::cover!(w == 1, "one-digit gutter");
    kani::cover!(w == 20, "twenty-digit gutter");
    kani::cover!(true, "end of harness reached");
    std::mem::forget(v);
    std::mem::forget(data);
}

#[kani::proof]
#[kani::unwind(22)]
#[kani::stub(f64::log10, log10_stub)]
fn c05_initialize_hunk_2() {
    init_hunk::<2>();
}

#[kani::proof]
#[kani::unwind(22)]
#[kani::stub(f64::log10, log10_stub)]
fn c05_initialize_hunk_3() {
    init_hunk::<3>();
}
