// Kani harnesses for src/align.rs (injected as `mod verif_kani`).
// Property C06: the alignment from which within-line emphasis is computed is a valid edit script
// whose "unchanged" steps join equal tokens; identical sequences give no edit; a single
// contiguous token-level difference gives a single contiguous changed stretch of that size.
use super::*;

// Two distinct words and whitespace, so that equal / unequal / repeated tokens all occur.
const ALPHA: [&str; 3] = ["a", "b", " "];

fn any_id() -> u8 {
    let i: u8 = kani::any();
    kani::assume(i < 3);
    i
}

// Token vectors exactly as `edits::tokenize` builds them: a leading "" token, then the tokens.
// The ids are kept in stack arrays (the oracle never reads a &str back from a Vec).
fn build<const M: usize, const N: usize>(xi: &[u8; M], yi: &[u8; N]) -> Alignment<'static> {
    let mut x: Vec<&str> = Vec::with_capacity(M + 1);
    let mut y: Vec<&str> = Vec::with_capacity(N + 1);
    x.push("");
    y.push("");
    for k in 0..M {
        x.push(ALPHA[xi[k] as usize]);
    }
    for k in 0..N {
        y.push(ALPHA[yi[k] as usize]);
    }
    Alignment::new(x, y)
}

/// Valid edit script, NoOps join equal tokens.
fn valid_script<const M: usize, const N: usize>() {
    let mut xi = [0u8; M];
    let mut yi = [0u8; N];
    for k in 0..M {
        xi[k] = any_id();
    }
    for k in 0..N {
        yi[k] = any_id();
    }
    let al = build(&xi, &yi);
    let ops = al.operations();
    let n = ops.len();
    assert!(n >= 1 && n <= M + N + 1, "script length at most m+n+1");
    let (mut i, mut j) = (0usize, 0usize);
    let (mut ins, mut del, mut inner_noop) = (0usize, 0usize, 0usize);
    let mut k = 0;
    while k < M + N + 1 {
        if k < n {
            match ops[k] {
                NoOp => {
                    assert!(i <= M && j <= N, "NoOp does not read past the end of either line");
                    if i == 0 || j == 0 {
                        assert!(i == 0 && j == 0, "the leading empty tokens are only paired with each other");
                    } else {
                        assert!(xi[i - 1] == yi[j - 1], "what is shown as unchanged is the same token in both lines");
                        inner_noop += 1;
                    }
                    i += 1;
                    j += 1;
                }
                Deletion => {
                    assert!(i <= M, "Deletion consumes an existing token of the removed line");
                    i += 1;
                    del += 1;
                }
                Insertion => {
                    assert!(j <= N, "Insertion consumes an existing token of the added line");
                    j += 1;
                    ins += 1;
                }
            }
        }
        k += 1;
    }
    assert!(i == M + 1 && j == N + 1, "the script consumes both lines completely");
    assert!(ops[0] == NoOp, "the script starts with the NoOp of the two empty tokens");
    let big = if M > N { M } else { N };
    assert!(n >= big + 1, "script length at least max(m,n)+1");
    kani::cover!(n == M + N + 1, "nothing in common");
    kani::cover!(M < 2 || N < 2 || (ins > 0 && del > 0 && inner_noop > 0), "insertion, deletion and unchanged token in one alignment");
    kani::cover!(true, "end of harness reached");
    std::mem::forget(ops);
    std::mem::forget(al);
}

/// Identical token sequences: nothing but NoOps (identical lines carry no emphasis).
fn identical<const M: usize>() {
    let mut xi = [0u8; M];
    for k in 0..M {
        xi[k] = any_id();
    }
    let al = build(&xi, &xi);
    let ops = al.operations();
    assert!(ops.len() == M + 1, "identical lines: one step per token");
    let mut k = 0;
    while k < M + 1 {
        assert!(ops[k] == NoOp, "identical lines: every step is NoOp");
        k += 1;
    }
    kani::cover!(M < 2 || xi[0] == xi[1], "repeated token");
    kani::cover!(true, "end of harness reached");
    std::mem::forget(ops);
    std::mem::forget(al);
}

/// y = x with a contiguous run of K arbitrary tokens inserted at a symbolic position (or the
/// reverse when DEL): exactly K Insertions (Deletions), consecutive, and no operation of the
/// other kind.
fn single_run<const M: usize, const K: usize, const N: usize, const DEL: bool>() {
    let mut xi = [0u8; M];
    let mut ri = [0u8; K];
    let mut yi = [0u8; N];
    for k in 0..M {
        xi[k] = any_id();
    }
    for k in 0..K {
        ri[k] = any_id();
    }
    let p: usize = kani::any();
    kani::assume(p <= M);
    for j in 0..N {
        yi[j] = if j < p {
            xi[j]
        } else if j < p + K {
            ri[j - p]
        } else {
            xi[j - K]
        };
    }
    let al = if DEL { build(&yi, &xi) } else { build(&xi, &yi) };
    let ops = al.operations();
    let n = ops.len();
    let (mut changed, mut other, mut runs) = (0usize, 0usize, 0usize);
    let mut prev = false;
    let mut k = 0;
    while k < M + N + 1 {
        if k < n {
            let is_changed = if DEL { ops[k] == Deletion } else { ops[k] == Insertion };
            let is_other = if DEL { ops[k] == Insertion } else { ops[k] == Deletion };
            if is_changed {
                changed += 1;
                if !prev {
                    runs += 1;
                }
            }
            if is_other {
                other += 1;
            }
            prev = is_changed;
        }
        k += 1;
    }
    assert!(other == 0, "a pure insertion (deletion) is not reported as a mixture");
    assert!(changed == K, "the changed stretch has exactly the size of the difference");
    assert!(runs == 1, "the changed stretch is contiguous");
    kani::cover!(p == 0, "run at the start of the line");
    kani::cover!(p == M, "run at the end of the line");
    kani::cover!(M < 1 || p >= M || ri[K - 1] == xi[p], "run ends with the token that follows it (ambiguous position)");
    kani::cover!(true, "end of harness reached");
    std::mem::forget(ops);
    std::mem::forget(al);
}

/// y = x with one token replaced, at a symbolic position, by a different one: exactly one
/// Deletion and one Insertion, adjacent (changes are grouped).
fn substitution<const M: usize>() {
    let mut xi = [0u8; M];
    let mut yi = [0u8; M];
    for k in 0..M {
        xi[k] = any_id();
    }
    let p: usize = kani::any();
    kani::assume(p < M);
    let r = any_id();
    kani::assume(r != xi[p]);
    for j in 0..M {
        yi[j] = if j == p { r } else { xi[j] };
    }
    let al = build(&xi, &yi);
    let ops = al.operations();
    let n = ops.len();
    let (mut ins, mut del, mut runs) = (0usize, 0usize, 0usize);
    let mut prev = false;
    let mut k = 0;
    while k < 2 * M + 1 {
        if k < n {
            let ch = ops[k] != NoOp;
            if ops[k] == Deletion {
                del += 1;
            }
            if ops[k] == Insertion {
                ins += 1;
            }
            if ch && !prev {
                runs += 1;
            }
            prev = ch;
        }
        k += 1;
    }
    assert!(del == 1 && ins == 1, "one token substituted: one deletion and one insertion");
    assert!(runs == 1, "the deletion and the insertion are adjacent");
    kani::cover!(p == 0, "first token substituted");
    kani::cover!(p == M - 1, "last token substituted");
    kani::cover!(true, "end of harness reached");
    std::mem::forget(ops);
    std::mem::forget(al);
}

/// `run_length_encode` (behind `coalesced_operations`): run lengths sum to the input length,
/// adjacent runs differ, and expanding the runs gives the input back.
fn rle<const K: usize>() {
    let mut tags = [0u8; K];
    let mut v: Vec<u8> = Vec::with_capacity(K);
    for k in 0..K {
        tags[k] = any_id();
        v.push(tags[k]);
    }
    let enc = run_length_encode(v);
    let n = enc.len();
    assert!(n <= K && (n >= 1 || K == 0), "number of runs");
    let mut pos = 0usize;
    let mut k = 0;
    while k < K {
        if k < n {
            let (t, len) = enc[k];
            assert!(len >= 1 && pos + len <= K, "run length");
            let mut q = 0;
            while q < K {
                if q >= pos && q < pos + len {
                    assert!(tags[q] == t, "run expands to the input");
                }
                q += 1;
            }
            if pos + len < K {
                assert!(tags[pos + len] != t, "adjacent runs differ (runs are maximal)");
            }
            pos += len;
        }
        k += 1;
    }
    assert!(pos == K, "run lengths sum to the input length");
    kani::cover!(n == K && K > 1, "no two adjacent equal");
    kani::cover!(n == 1 && K > 1, "a single run");
    kani::cover!(true, "end of harness reached");
    std::mem::forget(enc);
}

macro_rules! h {
    ($name:ident, $unwind:expr, $body:expr) => {
        #[kani::proof]
        #[kani::unwind($unwind)]
        fn $name() {
            $body
        }
    };
}

// unwind = (m+2)(n+2)+1: the Vec::extend_with loop behind vec![cell; (m+2)(n+2)]
h!(c06_align_1_1, 10, valid_script::<1, 1>());
h!(c06_align_2_1, 13, valid_script::<2, 1>());
h!(c06_align_1_2, 13, valid_script::<1, 2>());
h!(c06_align_2_2, 17, valid_script::<2, 2>());
h!(c06_align_3_2, 21, valid_script::<3, 2>());
h!(c06_align_2_3, 21, valid_script::<2, 3>());
h!(c06_align_3_3, 26, valid_script::<3, 3>());
h!(c06_align_4_3, 31, valid_script::<4, 3>());
h!(c06_align_3_4, 31, valid_script::<3, 4>());
h!(c06_align_4_4, 37, valid_script::<4, 4>());
h!(c06_align_5_4, 43, valid_script::<5, 4>());
h!(c06_align_0_2, 9, valid_script::<0, 2>());
h!(c06_align_2_0, 9, valid_script::<2, 0>());

h!(c06_identical_1, 10, identical::<1>());
h!(c06_identical_2, 17, identical::<2>());
h!(c06_identical_3, 26, identical::<3>());
h!(c06_identical_4, 37, identical::<4>());

h!(c06_single_run_ins_1_1, 13, single_run::<1, 1, 2, false>());
h!(c06_single_run_ins_2_1, 21, single_run::<2, 1, 3, false>());
h!(c06_single_run_ins_2_2, 25, single_run::<2, 2, 4, false>());
h!(c06_single_run_ins_3_1, 31, single_run::<3, 1, 4, false>());
h!(c06_single_run_ins_3_2, 36, single_run::<3, 2, 5, false>());
h!(c06_single_run_del_1_1, 13, single_run::<1, 1, 2, true>());
h!(c06_single_run_del_2_1, 21, single_run::<2, 1, 3, true>());
h!(c06_single_run_del_2_2, 25, single_run::<2, 2, 4, true>());
h!(c06_single_run_del_3_1, 31, single_run::<3, 1, 4, true>());
h!(c06_single_run_del_3_2, 36, single_run::<3, 2, 5, true>());

h!(c06_substitution_1, 10, substitution::<1>());
h!(c06_substitution_2, 17, substitution::<2>());
h!(c06_substitution_3, 26, substitution::<3>());
h!(c06_substitution_4, 37, substitution::<4>());

h!(c06_rle_3, 6, rle::<3>());
h!(c06_rle_4, 7, rle::<4>());
