// Kani harnesses for src/handlers/commit_meta.rs (injected as `mod verif_kani`).
// Property C02 (shared with C04): the number of output lines produced for one commit line
// ("commit <hash> ...") by the real `handle_commit_meta_header_line` /
// `_handle_commit_meta_header_line`, written into a real in-memory writer, for a symbolic
// configuration (--color-only, commit style omit / raw flags). The regex test that recognises
// the line (kani-compiler cannot compile regex) is replaced by `true`, the drawing function by
// one that writes exactly one line.
use super::*;
use crate::config::Config;
use crate::style::{DecorationStyle, Style};
use std::mem::MaybeUninit;
use std::ptr::{addr_of, addr_of_mut};

fn one_line(w: &mut dyn std::io::Write, _a: &str, _b: &str, _c: &str, _d: &crate::cli::Width, _s: Style, _t: ansi_term::Style) -> std::io::Result<()> {
    w.write_all(b"C\n")
}
fn stub_get_draw_function(_d: DecorationStyle) -> (Box<draw::DrawFunction>, bool, ansi_term::Style) {
    let k = 1u8;
    (
        Box::new(move |w: &mut dyn std::io::Write, a: &str, b: &str, c: &str, d: &crate::cli::Width, s: Style, t: ansi_term::Style| {
            let _ = k;
            one_line(w, a, b, c, d, s, t)
        }),
        false,
        ansi_term::Style::new(),
    )
}
fn stub_format(_args: std::fmt::Arguments<'_>) -> String {
    String::new()
}
fn stub_delta_unreachable(_m: &str) -> ! {
    panic!("delta_unreachable reached")
}
fn stub_commit_hyperlink<'a>(line: &'a str, _c: &Config) -> Cow<'a, str> {
    Cow::from(line)
}
fn stub_is_commit_line<'p>(_s: &StateMachine<'p>) -> bool
where
    'p: 'p,
{
    true
}
// monitor: the buffered removed / added lines of the previous hunk are painted ...
fn stub_paint_buffered<'p>(p: &mut crate::paint::Painter<'p>)
where
    'p: 'p,
{
    unsafe {
        let c = p.config as *const Config as *mut Config;
        addr_of_mut!((*c).max_line_length).write(1);
    }
}
// ... a pending "diff --git" header of the previous section is written ...
fn stub_pending<'p>(s: &mut StateMachine<'p>) -> std::io::Result<()>
where
    'p: 'p,
{
    unsafe {
        let c = s.config as *const Config as *mut Config;
        addr_of_mut!((*c).max_syntax_length).write(1);
    }
    Ok(())
}
// ... and the rendered output is written out before the commit line (counts the calls that come
// after the painting)
fn stub_emit<'p>(p: &mut crate::paint::Painter<'p>) -> std::io::Result<()>
where
    'p: 'p,
{
    unsafe {
        let c = p.config as *const Config as *mut Config;
        if addr_of!((*c).max_line_length).read() == 1 {
            addr_of_mut!((*c).line_buffer_size).write(1);
        }
    }
    Ok(())
}

#[kani::proof]
#[kani::unwind(8)]
#[kani::stub(crate::handlers::draw::get_draw_function, stub_get_draw_function)]
#[kani::stub(std::fmt::format, stub_format)]
#[kani::stub(crate::features::hyperlinks::format_commit_line_with_osc8_commit_hyperlink, stub_commit_hyperlink)]
#[kani::stub(crate::config::delta_unreachable, stub_delta_unreachable)]
#[kani::stub(crate::delta::StateMachine::test_commit_meta_header_line, stub_is_commit_line)]
#[kani::stub(crate::delta::StateMachine::handle_pending_line_with_diff_name, stub_pending)]
#[kani::stub(crate::paint::Painter::paint_buffered_minus_and_plus_lines, stub_paint_buffered)]
#[kani::stub(crate::paint::Painter::emit, stub_emit)]
fn c02_commit_line_count() {
    let mut cfg_mem = MaybeUninit::<Config>::uninit();
    let cp = cfg_mem.as_mut_ptr();
    let color_only: bool = kani::any();
    let omitted: bool = kani::any();
    let raw: bool = kani::any();
    let decorated: bool = kani::any();
    let decoration = if decorated { DecorationStyle::Underline(ansi_term::Style::new()) } else { DecorationStyle::NoDecoration };
    unsafe {
        addr_of_mut!((*cp).color_only).write(color_only);
        addr_of_mut!((*cp).hyperlinks).write(false);
        addr_of_mut!((*cp).commit_style).write(Style { is_omitted: omitted, is_raw: raw, decoration_style: decoration, ..Style::new() });
        addr_of_mut!((*cp).decorations_width).write(crate::cli::Width::Variable);
        addr_of_mut!((*cp).max_line_length).write(0);
        addr_of_mut!((*cp).max_syntax_length).write(0);
        addr_of_mut!((*cp).line_buffer_size).write(0);
    }
    let config: &Config = unsafe { &*cp };
    let mut sink: Vec<u8> = Vec::with_capacity(8);
    let mut sm_mem = MaybeUninit::<StateMachine>::uninit();
    let sp = sm_mem.as_mut_ptr();
    unsafe {
        addr_of_mut!((*sp).line).write(String::new());
        addr_of_mut!((*sp).raw_line).write(String::new());
        addr_of_mut!((*sp).state).write(State::Unknown);
        addr_of_mut!((*sp).config).write(config);
        addr_of_mut!((*sp).painter.config).write(config);
        addr_of_mut!((*sp).painter.writer).write(&mut sink);
    }
    let sm: &mut StateMachine = unsafe { &mut *sp };
    let r = sm.handle_commit_meta_header_line();
    let handled = match r {
        Ok(h) => h,
        Err(_) => {
            assert!(false, "writing into memory does not fail");
            false
        }
    };
    assert!(matches!(sm.state, State::CommitMeta), "a commit line puts the machine into the commit-metadata state");
    let (painted, pending, emitted) = unsafe { (addr_of!((*cp).max_line_length).read(), addr_of!((*cp).max_syntax_length).read(), addr_of!((*cp).line_buffer_size).read()) };
    assert!(painted == 1 && pending == 1, "C01/C14: lines buffered from the previous hunk are painted and a pending file header is written before the commit line");
    let mut newlines = 0usize;
    let mut i = 0;
    while i < 4 {
        if i < sink.len() && sink[i] == b'\n' {
            newlines += 1;
        }
        i += 1;
    }
    assert!(sink.len() <= 4, "harness: at most a one-line header");
    // style raw without decoration: delta does not handle the line, the caller passes it through
    // unchanged (one line, emit_line_unchanged - covered by c04_emit_line_unchanged)
    let passthrough = raw && !decorated;
    assert!(handled == !passthrough, "a commit line is handled unless its style is raw and undecorated");
    if passthrough {
        assert!(newlines == 0, "an unhandled commit line is left to the pass-through path, nothing is written for it here");
    } else {
        assert!(emitted == 1, "C04: rendered output that precedes the commit line is written out before it");
        if color_only {
            assert!(newlines == 1, "--color-only: a commit line gives exactly one output line, whatever the commit style (omit included)");
        } else if omitted {
            assert!(newlines == 0, "an omitted commit style hides the commit line");
        } else {
            assert!(newlines == 1, "the commit line is drawn once");
        }
    }
    kani::cover!(color_only && omitted && !passthrough, "--color-only with an omitted commit style");
    kani::cover!(color_only && passthrough, "--color-only with the raw commit style");
    kani::cover!(!color_only && omitted && !passthrough, "omitted commit style");
    kani::cover!(true, "end of harness reached");
    std::mem::forget(sink);
}
