// Kani harnesses for src/delta.rs (injected as `mod verif_kani`).
// Property C04 (and C01/C03): a line that is not valid UTF-8 is kept - invalid bytes are replaced
// by U+FFFD, the text around them stays, and it is cut only beyond the configured maximum line
// length (0 = no limit), at a character boundary. Kernel: `StateMachine::ingest_line`.
use super::*;
use std::mem::MaybeUninit;
use std::ptr::{addr_of, addr_of_mut};

// valid UTF-8 goes to `ingest_line_utf8` (CR handling, ANSI-aware truncation, stripping: the VTE
// iterator, out of reach); the monitor records that it was called with the unchanged bytes
fn stub_ingest_line_utf8<'a>(sm: &mut StateMachine<'a>, raw_line: String)
where
    'a: 'a,
{
    unsafe {
        let p = sm.config as *const Config as *mut Config;
        addr_of_mut!((*p).max_syntax_length).write(1 + raw_line.len());
    }
    sm.raw_line = raw_line;
}

#[kani::proof]
#[kani::unwind(5)]
#[kani::stub(StateMachine::ingest_line_utf8, stub_ingest_line_utf8)]
fn c04_ingest_invalid_utf8() {
    let mut cfg_mem = MaybeUninit::<Config>::uninit();
    let cp = cfg_mem.as_mut_ptr();
    let max_len: usize = kani::any();
    unsafe {
        addr_of_mut!((*cp).max_line_length).write(max_len);
        addr_of_mut!((*cp).max_syntax_length).write(0);
    }
    let config: &Config = unsafe { &*cp };
    let mut sm_mem = MaybeUninit::<StateMachine>::uninit();
    let sp = sm_mem.as_mut_ptr();
    unsafe {
        addr_of_mut!((*sp).line).write(String::new());
        addr_of_mut!((*sp).raw_line).write(String::new());
        addr_of_mut!((*sp).config).write(config);
    }
    let sm: &mut StateMachine = unsafe { &mut *sp };
    // The line itself is concrete ("a", an invalid byte, "b"): with symbolic bytes the lossy
    // conversion copies chunks of symbolic length and CBMC runs out of 24 GB. What is symbolic is
    // the configured limit - every usize.
    let (a, b) = (b'a', b'b');
    let bytes = [a, 0xff, b];
    sm.ingest_line(&bytes);
    let called_utf8 = unsafe { addr_of!((*cp).max_syntax_length).read() };
    assert!(called_utf8 == 0, "harness: the input is not valid UTF-8");
    let raw = sm.raw_line.as_bytes();
    // the full replacement text is: a, EF BF BD (U+FFFD), b  - 5 bytes
    let want_len = if max_len == 0 || max_len >= 5 {
        5
    } else if max_len == 4 {
        4
    } else {
        1 // a cut inside U+FFFD falls back to the boundary before it
    };
    assert!(raw.len() == want_len, "invalid UTF-8 is replaced, not dropped; the line is cut only beyond the maximum line length (0 = unlimited)");
    assert!(raw[0] == a, "text before the invalid byte is kept");
    if want_len >= 4 {
        assert!(raw[1] == 0xef && raw[2] == 0xbf && raw[3] == 0xbd, "the invalid byte becomes U+FFFD");
    }
    if want_len == 5 {
        assert!(raw[4] == b, "text after the invalid byte is kept");
    }
    assert!(sm.line.len() == sm.raw_line.len(), "the parsed line is the same text");
    kani::cover!(max_len == 0, "no limit configured");
    kani::cover!(max_len == 2, "limit inside the replacement character");
    kani::cover!(true, "end of harness reached");
}

#[kani::proof]
#[kani::unwind(5)]
#[kani::stub(StateMachine::ingest_line_utf8, stub_ingest_line_utf8)]
fn c04_ingest_valid_utf8_passed_on() {
    let mut cfg_mem = MaybeUninit::<Config>::uninit();
    let cp = cfg_mem.as_mut_ptr();
    unsafe {
        addr_of_mut!((*cp).max_line_length).write(kani::any());
        addr_of_mut!((*cp).max_syntax_length).write(0);
    }
    let config: &Config = unsafe { &*cp };
    let mut sm_mem = MaybeUninit::<StateMachine>::uninit();
    let sp = sm_mem.as_mut_ptr();
    unsafe {
        addr_of_mut!((*sp).line).write(String::new());
        addr_of_mut!((*sp).raw_line).write(String::new());
        addr_of_mut!((*sp).config).write(config);
    }
    let sm: &mut StateMachine = unsafe { &mut *sp };
    let bytes: [u8; 3] = kani::any();
    let valid = std::str::from_utf8(&bytes).is_ok();
    sm.ingest_line(&bytes);
    let called_utf8 = unsafe { addr_of!((*cp).max_syntax_length).read() };
    if valid {
        assert!(called_utf8 == 4, "valid UTF-8 is handed on unchanged, whatever the limit");
        let raw = sm.raw_line.as_bytes();
        assert!(raw.len() == 3 && raw[0] == bytes[0] && raw[1] == bytes[1] && raw[2] == bytes[2], "bytes unchanged");
    } else {
        assert!(called_utf8 == 0, "invalid UTF-8 takes the replacement path");
    }
    kani::cover!(valid && bytes[0] >= 0xe0, "a 3-byte character");
    kani::cover!(!valid, "invalid input");
    kani::cover!(true, "end of harness reached");
}
