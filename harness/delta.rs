// Kani harnesses for src/delta.rs (injected as `mod verif_kani`).
// Property C04 (and C01/C03): a line that is not valid UTF-8 is kept - invalid bytes are replaced
// by U+FFFD, the text around them stays, and it is cut only beyond the configured maximum line
// length (0 = no limit), at a character boundary. Kernel: `StateMachine::ingest_line`.
use super::*;
use std::mem::MaybeUninit;
use std::ptr::{addr_of, addr_of_mut};

// valid UTF-8 goes to `ingest_line_utf8` (CR handling, ANSI-aware truncation, stripping: the VTE
// iterator, out of reach); the monitor records that it was called with the unchanged bytes
fn stub_ingest_line_utf8<'a>(sm: &mut StateMachine<'a>, raw_line: String)
where
    'a: 'a,
{
    unsafe {
        let p = sm.config as *const Config as *mut Config;
        addr_of_mut!((*p).max_syntax_length).write(1 + raw_line.len());
    }
    sm.raw_line = raw_line;
}

#[kani::proof]
#[kani::unwind(5)]
#[kani::stub(StateMachine::ingest_line_utf8, stub_ingest_line_utf8)]
fn c04_ingest_invalid_utf8() {
    let mut cfg_mem = MaybeUninit::<Config>::uninit();
    let cp = cfg_mem.as_mut_ptr();
    let max_len: usize = kani::any();
    unsafe {
        addr_of_mut!((*cp).max_line_length).write(max_len);
        addr_of_mut!((*cp).max_syntax_length).write(0);
    }
    let config: &Config = unsafe { &*cp };
    let mut sm_mem = MaybeUninit::<StateMachine>::uninit();
    let sp = sm_mem.as_mut_ptr();
    unsafe {
        addr_of_mut!((*sp).line).write(String::new());
        addr_of_mut!((*sp).raw_line).write(String::new());
        addr_of_mut!((*sp).config).write(config);
    }
    let sm: &mut StateMachine = unsafe { &mut *sp };
    // The line itself is concrete ("a", an invalid byte, "b"): with symbolic bytes the lossy
    // conversion copies chunks of symbolic length and CBMC runs out of 24 GB. What is symbolic is
    // the configured limit - every usize.
    let (a, b) = (b'a', b'b');
    let bytes = [a, 0xff, b];
    sm.ingest_line(&bytes);
    let called_utf8 = unsafe { addr_of!((*cp).max_syntax_length).read() };
    assert!(called_utf8 == 0, "harness: the input is not valid UTF-8");
    let raw = sm.raw_line.as_bytes();
    // the full replacement text is: a, EF BF BD (U+FFFD), b  - 5 bytes
    let want_len = if max_len == 0 || max_len >= 5 {
        5
    } else if max_len == 4 {
        4
    } else {
        1 // a cut inside U+FFFD falls back to the boundary before it
    };
    assert!(raw.len() == want_len, "invalid UTF-8 is replaced, not dropped; the line is cut only beyond the maximum line length (0 = unlimited)");
    assert!(raw[0] == a, "text before the invalid byte is kept");
    if want_len >= 4 {
        assert!(raw[1] == 0xef && raw[2] == 0xbf && raw[3] == 0xbd, "the invalid byte becomes U+FFFD");
    }
    if want_len == 5 {
        assert!(raw[4] == b, "text after the invalid byte is kept");
    }
    assert!(sm.line.len() == sm.raw_line.len(), "the parsed line is the same text");
    kani::cover!(max_len == 0, "no limit configured");
    kani::cover!(max_len == 2, "limit inside the replacement character");
    kani::cover!(true, "end of harness reached");
}

#[kani::proof]
#[kani::unwind(5)]
#[kani::stub(StateMachine::ingest_line_utf8, stub_ingest_line_utf8)]
fn c04_ingest_valid_utf8_passed_on() {
    let mut cfg_mem = MaybeUninit::<Config>::uninit();
    let cp = cfg_mem.as_mut_ptr();
    unsafe {
        addr_of_mut!((*cp).max_line_length).write(kani::any());
        addr_of_mut!((*cp).max_syntax_length).write(0);
    }
    let config: &Config = unsafe { &*cp };
    let mut sm_mem = MaybeUninit::<StateMachine>::uninit();
    let sp = sm_mem.as_mut_ptr();
    unsafe {
        addr_of_mut!((*sp).line).write(String::new());
        addr_of_mut!((*sp).raw_line).write(String::new());
        addr_of_mut!((*sp).config).write(config);
    }
    let sm: &mut StateMachine = unsafe { &mut *sp };
    let bytes: [u8; 3] = kani::any();
    let valid = std::str::from_utf8(&bytes).is_ok();
    sm.ingest_line(&bytes);
    let called_utf8 = unsafe { addr_of!((*cp).max_syntax_length).read() };
    if valid {
        assert!(called_utf8 == 4, "valid UTF-8 is handed on unchanged, whatever the limit");
        let raw = sm.raw_line.as_bytes();
        assert!(raw.len() == 3 && raw[0] == bytes[0] && raw[1] == bytes[1] && raw[2] == bytes[2], "bytes unchanged");
    } else {
        assert!(called_utf8 == 0, "invalid UTF-8 takes the replacement path");
    }
    kani::cover!(valid && bytes[0] >= 0xe0, "a 3-byte character");
    kani::cover!(!valid, "invalid input");
    kani::cover!(true, "end of harness reached");
}

// ------------------------------------------------------------------------------------------------
// C04: "written to the output exactly as received, byte for byte, including colours it already
// carries, in order and interleaved correctly with rendered sections". The real
// `StateMachine::emit_line_unchanged` + `Painter::emit` + `format_raw_line` writing into a real
// in-memory writer: whatever is pending in the painter's output buffer comes out first, then the
// raw line unchanged, then one newline.
// `format_raw_line` is `if config.hyperlinks && io::stdout().is_terminal() { <regex rewriting> }
// else { Cow::from(line) }`. Neither the terminal query (reaches catch_unwind: kani-compiler ICE)
// nor the regex can be compiled; the stub is the function's behaviour with hyperlinks off, and
// fails the harness if it is ever called with hyperlinks on.
fn stub_format_raw_line<'a>(line: &'a str, config: &Config) -> Cow<'a, str> {
    assert!(!config.hyperlinks, "harness: hyperlinks are off");
    Cow::from(line)
}

fn emit_unchanged<const B: usize, const L: usize>() {
    let mut cfg_mem = MaybeUninit::<Config>::uninit();
    let cp = cfg_mem.as_mut_ptr();
    unsafe {
        addr_of_mut!((*cp).hyperlinks).write(false);
    }
    let config: &Config = unsafe { &*cp };
    let mut sink: Vec<u8> = Vec::with_capacity(B + L + 2);
    let mut sm_mem = MaybeUninit::<StateMachine>::uninit();
    let sp = sm_mem.as_mut_ptr();
    let mut buf = [0u8; B];
    let mut raw = [0u8; L];
    for i in 0..B {
        let c: u8 = kani::any();
        kani::assume(c < 0x80);
        buf[i] = c;
    }
    for i in 0..L {
        let c: u8 = kani::any();
        kani::assume(c < 0x80 && c != b'\n'); // any ASCII byte incl. ESC: colours already present
        raw[i] = c;
    }
    unsafe {
        addr_of_mut!((*sp).raw_line).write(String::from_utf8_unchecked(raw.to_vec()));
        addr_of_mut!((*sp).line).write(String::new());
        addr_of_mut!((*sp).config).write(config);
        addr_of_mut!((*sp).painter.config).write(config);
        addr_of_mut!((*sp).painter.writer).write(&mut sink);
        addr_of_mut!((*sp).painter.output_buffer).write(String::from_utf8_unchecked(buf.to_vec()));
    }
    let sm: &mut StateMachine = unsafe { &mut *sp };
    let r = sm.emit_line_unchanged();
    assert!(matches!(r, Ok(true)), "the line counts as handled");
    assert!(sm.painter.output_buffer.is_empty(), "the pending rendered output has been flushed");
    assert!(sink.len() == B + L + 1, "nothing added, nothing dropped");
    for i in 0..B {
        assert!(sink[i] == buf[i], "pending rendered output comes first, unchanged");
    }
    for i in 0..L {
        assert!(sink[B + i] == raw[i], "then the raw line, byte for byte");
    }
    assert!(sink[B + L] == b'\n', "then one newline");
    kani::cover!(L > 0 && raw[0] == 0x1b, "line starting with an escape character");
    kani::cover!(true, "end of harness reached");
    std::mem::forget(sink);
}

#[kani::proof]
#[kani::unwind(8)]
#[kani::stub(format_raw_line, stub_format_raw_line)]
fn c04_emit_unchanged_2_3() {
    emit_unchanged::<2, 3>();
}

#[kani::proof]
#[kani::unwind(8)]
#[kani::stub(format_raw_line, stub_format_raw_line)]
fn c04_emit_unchanged_0_4() {
    emit_unchanged::<0, 4>();
}

// C04: removal of a carriage return that is followed only by escape sequences (real
// `ingest_line_utf8`, real `rfind`, real `format!`): exactly the one '\r' byte goes, everything
// before and after it stays, and a '\r' followed by visible text is left alone. The width
// measurement and escape stripping (VTE iterator, out of reach) are replaced by their behaviour
// on the lines used here.
mod cr {
    use super::super::*;
    use std::mem::MaybeUninit;
    use std::ptr::addr_of_mut;

    // width of the text after the '\r': 0 for an escape sequence (or nothing), else its length
    fn stub_measure_text_width(s: &str) -> usize {
        let b = s.as_bytes();
        if b.is_empty() || b[0] == 0x1b {
            0
        } else {
            b.len()
        }
    }
    fn stub_strip_ansi_codes(_s: &str) -> String {
        String::new()
    }

    fn run(line: [u8; 6]) -> StateMachine<'static> {
        let cfg: &'static mut MaybeUninit<Config> = Box::leak(Box::new(MaybeUninit::<Config>::uninit()));
        let cp = cfg.as_mut_ptr();
        unsafe {
            addr_of_mut!((*cp).max_line_length).write(0);
        }
        let config: &'static Config = unsafe { &*cp };
        let mut sm_mem = MaybeUninit::<StateMachine<'static>>::uninit();
        let sp = sm_mem.as_mut_ptr();
        unsafe {
            addr_of_mut!((*sp).line).write(String::new());
            addr_of_mut!((*sp).raw_line).write(String::new());
            addr_of_mut!((*sp).config).write(config);
        }
        let mut v: Vec<u8> = Vec::with_capacity(6);
        v.extend_from_slice(&line);
        let s = unsafe { String::from_utf8_unchecked(v) };
        unsafe { (*sp).ingest_line_utf8(s) };
        unsafe { sm_mem.assume_init() }
    }

    #[kani::proof]
    #[kani::unwind(10)]
    #[kani::stub(crate::ansi::measure_text_width, stub_measure_text_width)]
    #[kani::stub(crate::ansi::strip_ansi_codes, stub_strip_ansi_codes)]
    fn c04_ingest_cr_before_escape() {
        // "ab" "\r" <t> "[m"  with t either ESC (the tail is
        // an escape sequence) or a letter (the tail is visible text)
        check(false);
        check(true);
        kani::cover!(true, "end of harness reached");
    }

    // the line is concrete: with a symbolic byte in it the real format! does not finish
    // symbolic execution (900 s); the solver still decides every panic / bounds check on the way
    fn check(tail_visible: bool) {
        let x = b'b';
        let t = if tail_visible { b'c' } else { 0x1b };
        let sm = run([b'a', x, b'\r', t, b'[', b'm']);
        let raw = sm.raw_line.as_bytes();
        if tail_visible {
            assert!(raw.len() == 6, "a carriage return followed by visible text is kept");
            assert!(raw[0] == b'a' && raw[1] == x && raw[2] == b'\r' && raw[3] == t && raw[4] == b'[' && raw[5] == b'm', "the line is unchanged");
        } else {
            assert!(raw.len() == 5, "only the carriage return is removed: the text before it and the escape sequence after it are kept");
            assert!(raw[0] == b'a' && raw[1] == x, "text before the carriage return is kept");
            assert!(raw[2] == 0x1b && raw[3] == b'[' && raw[4] == b'm', "the escape sequence after the carriage return is kept byte for byte");
        }
        std::mem::forget(sm);
    }
}
