// Kani harnesses for src/handlers/diff_header.rs (injected as `mod verif_kani`).
// Property C14 (paths are extracted faithfully from header lines), C03 (no slicing panic).
use super::*;

// One symbolic ASCII byte that can occur inside a line (lines are split at '\n').
fn any_line_byte() -> u8 {
    let c: u8 = kani::any();
    kani::assume(c < 0x80 && c != b'\n');
    c
}

const MAXLINE: usize = 32;

/// `--- ` / `+++ ` header line with an L-byte symbolic payload: the returned path is compared,
/// length and every byte, with a reference model written over the shadow bytes.
fn change_line<const L: usize>(marker: &'static [u8; 4]) {
    let mut line = [0u8; MAXLINE];
    line[..4].copy_from_slice(marker);
    let mut p = [0u8; L];
    for i in 0..L {
        let c = any_line_byte();
        p[i] = c;
        line[4 + i] = c;
    }
    // SAFETY: all bytes are ASCII.
    let s = unsafe { std::str::from_utf8_unchecked(&line[..4 + L]) };
    let git: bool = kani::any();
    let (r, ev) = parse_diff_header_line(s, git);
    assert!(ev == FileEvent::Change, "a ---/+++ line is a Change event");
    // ---- reference model over the shadow bytes ----
    let (mut lo, mut hi) = (0usize, L);
    let (mut tab_removed, mut prefix_removed) = (false, false);
    // 1. one pair of surrounding double quotes (only when both are present)
    if L >= 2 && p[0] == b'"' && p[L - 1] == b'"' {
        lo = 1;
        hi = L - 1;
    }
    kani::cover!(lo == 1 || L < 2, "quoted path");
    // 2. one trailing TAB (git appends it when the name contains a space)
    if hi > lo && p[hi - 1] == b'\t' {
        hi -= 1;
        tab_removed = true;
    }
    kani::cover!(tab_removed || L == 0, "trailing TAB removed");
    if git {
        // 3. a leading mnemonic prefix, once
        if hi - lo >= 2
            && p[lo + 1] == b'/'
            && (p[lo] == b'a' || p[lo] == b'b' || p[lo] == b'c' || p[lo] == b'i' || p[lo] == b'o' || p[lo] == b'w')
        {
            lo += 2;
            prefix_removed = true;
        }
        kani::cover!(prefix_removed || L < 2, "mnemonic prefix removed");
        kani::cover!(L < 4 || (prefix_removed && hi - lo >= 2 && p[lo] == b'a' && p[lo + 1] == b'/'), "prefix-like first directory kept (a/a/..)");
    } else {
        // 3'. plain diff -u: the file name ends at the first TAB (a timestamp follows)
        let mut end = lo;
        let mut found = false;
        for i in 0..L {
            if !found && i >= lo && i < hi {
                if p[i] == b'\t' {
                    found = true;
                } else {
                    end = i + 1;
                }
            }
        }
        if hi > lo {
            hi = end;
        }
        kani::cover!(found || L < 2, "timestamp column cut off");
    }
    let rb = r.as_bytes();
    assert!(rb.len() == hi - lo, "length of the extracted path");
    for i in 0..L {
        if i < rb.len() {
            assert!(rb[i] == p[lo + i], "bytes of the extracted path");
        }
    }
    kani::cover!(rb.len() == L, "path returned verbatim");
    kani::cover!(true, "end of harness reached");
    std::mem::forget(r);
}

macro_rules! change_harness {
    ($name:ident, $marker:expr, $len:expr, $unwind:expr) => {
        #[kani::proof]
        #[kani::unwind($unwind)]
        fn $name() {
            change_line::<$len>($marker);
        }
    };
}

change_harness!(c14_paths_minus_0, b"--- ", 0, 8);
change_harness!(c14_paths_minus_1, b"--- ", 1, 8);
change_harness!(c14_paths_minus_2, b"--- ", 2, 8);
change_harness!(c14_paths_minus_3, b"--- ", 3, 8);
change_harness!(c14_paths_minus_4, b"--- ", 4, 9);
change_harness!(c14_paths_minus_5, b"--- ", 5, 10);
change_harness!(c14_paths_plus_2, b"+++ ", 2, 8);
change_harness!(c14_paths_plus_3, b"+++ ", 3, 8);
change_harness!(c14_paths_plus_4, b"+++ ", 4, 9);

/// rename/copy/mode lines: the payload is returned exactly, with the right event.
fn verbatim_line<const M: usize, const L: usize>(marker: &'static [u8; M], which: u8) {
    let mut line = [0u8; MAXLINE];
    line[..M].copy_from_slice(marker);
    let mut p = [0u8; L];
    for i in 0..L {
        let c = any_line_byte();
        p[i] = c;
        line[M + i] = c;
    }
    let s = unsafe { std::str::from_utf8_unchecked(&line[..M + L]) };
    let git: bool = kani::any();
    let (r, ev) = parse_diff_header_line(s, git);
    match which {
        0 => assert!(ev == FileEvent::Rename, "rename event"),
        1 => assert!(ev == FileEvent::Copy, "copy event"),
        2 => assert!(ev == FileEvent::Added, "added event"),
        _ => assert!(ev == FileEvent::Removed, "removed event"),
    }
    let rb = r.as_bytes();
    assert!(rb.len() == L, "payload length kept");
    for i in 0..L {
        assert!(rb[i] == p[i], "payload bytes kept");
    }
    kani::cover!(L > 0 && p[0] == b'"', "payload starting with a quote is kept as is");
    kani::cover!(true, "end of harness reached");
    std::mem::forget(r);
}

#[kani::proof]
#[kani::unwind(14)]
fn c14_rename_from_3() {
    verbatim_line::<12, 3>(b"rename from ", 0);
}
#[kani::proof]
#[kani::unwind(12)]
fn c14_rename_to_3() {
    verbatim_line::<10, 3>(b"rename to ", 0);
}
#[kani::proof]
#[kani::unwind(12)]
fn c14_copy_from_3() {
    verbatim_line::<10, 3>(b"copy from ", 1);
}
#[kani::proof]
#[kani::unwind(10)]
fn c14_copy_to_3() {
    verbatim_line::<8, 3>(b"copy to ", 1);
}
#[kani::proof]
#[kani::unwind(16)]
fn c14_new_file_mode_3() {
    verbatim_line::<14, 3>(b"new file mode ", 2);
}
#[kani::proof]
#[kani::unwind(20)]
fn c14_deleted_file_mode_3() {
    verbatim_line::<18, 3>(b"deleted file mode ", 3);
}

/// Any other line is no event (first 4 bytes symbolic but not one of the markers).
#[kani::proof]
#[kani::unwind(20)]
fn c14_no_event_4() {
    let mut line = [0u8; 4];
    for i in 0..4 {
        line[i] = any_line_byte();
    }
    let is_marker = (line[0] == b'-' && line[1] == b'-' && line[2] == b'-' && line[3] == b' ')
        || (line[0] == b'+' && line[1] == b'+' && line[2] == b'+' && line[3] == b' ');
    let s = unsafe { std::str::from_utf8_unchecked(&line[..]) };
    let (r, ev) = parse_diff_header_line(s, kani::any());
    if !is_marker {
        assert!(ev == FileEvent::NoEvent && r.is_empty(), "a 4-byte line that is not a ---/+++ marker is no event");
        kani::cover!(line[0] == b'-' && line[1] == b'-' && line[2] == b'-', "three dashes without the space");
    } else {
        assert!(ev == FileEvent::Change && r.is_empty(), "bare marker: Change with an empty path");
        kani::cover!(true, "bare marker");
    }
    kani::cover!(true, "end of harness reached");
    std::mem::forget(r);
}

/// File name (used to select the syntax) of an extracted path: the bytes after the last '/'
/// (ignoring trailing slashes and a trailing "/." as `Path::file_name` documents), never for ".."
/// or the root.
fn filename<const L: usize>() {
    let mut p = [0u8; L];
    for i in 0..L {
        let c: u8 = kani::any();
        kani::assume(c >= 0x20 && c < 0x7f);
        p[i] = c;
    }
    let s = unsafe { std::str::from_utf8_unchecked(&p) };
    let r = get_filename_from_diff_header_line_file_path(s);
    let has_slash = {
        let mut h = false;
        for i in 0..L {
            if p[i] == b'/' {
                h = true;
            }
        }
        h
    };
    if let Some(name) = r {
        let nb = name.as_bytes();
        assert!(nb.len() >= 1 && nb.len() <= L, "file name is a non-empty part of the path");
        for i in 0..L {
            if i < nb.len() {
                assert!(nb[i] != b'/', "file name contains no separator");
            }
        }
        if !has_slash {
            assert!(nb.len() == L, "a path without separators is its own file name");
        }
        kani::cover!(nb.len() < L, "directory part dropped");
    } else {
        // None only for paths that consist of separators and dots
        for i in 0..L {
            assert!(p[i] == b'/' || p[i] == b'.', "no file name only for paths made of '/' and '.'");
        }
    }
    kani::cover!(r.is_none(), "path without a file name");
    kani::cover!(true, "end of harness reached");
}

#[kani::proof]
#[kani::unwind(8)]
fn c14_filename_3() {
    filename::<3>();
}

// Bare markers (empty payload): the offset constants must not exceed the marker length.
#[kani::proof]
#[kani::unwind(24)]
fn c14_bare_markers() {
    let git: bool = kani::any();
    let (r, ev) = parse_diff_header_line("rename from ", git);
    assert!(r.is_empty() && ev == FileEvent::Rename, "bare 'rename from '");
    std::mem::forget(r);
    let (r, ev) = parse_diff_header_line("rename to ", git);
    assert!(r.is_empty() && ev == FileEvent::Rename, "bare 'rename to '");
    std::mem::forget(r);
    let (r, ev) = parse_diff_header_line("copy from ", git);
    assert!(r.is_empty() && ev == FileEvent::Copy, "bare 'copy from '");
    std::mem::forget(r);
    let (r, ev) = parse_diff_header_line("copy to ", git);
    assert!(r.is_empty() && ev == FileEvent::Copy, "bare 'copy to '");
    std::mem::forget(r);
    let (r, ev) = parse_diff_header_line("new file mode ", git);
    assert!(r.is_empty() && ev == FileEvent::Added, "bare 'new file mode '");
    std::mem::forget(r);
    let (r, ev) = parse_diff_header_line("deleted file mode ", git);
    assert!(r.is_empty() && ev == FileEvent::Removed, "bare 'deleted file mode '");
    std::mem::forget(r);
    kani::cover!(git, "git source");
    kani::cover!(true, "end of harness reached");
}
