// Kani harnesses for src/handlers/diff_header.rs (injected as `mod verif_kani`).
// Property C14 (paths are extracted faithfully from header lines), C03 (no slicing panic).
use super::*;

// One symbolic ASCII byte that can occur inside a line (lines are split at '\n').
fn any_line_byte() -> u8 {
    let c: u8 = kani::any();
    kani::assume(c < 0x80 && c != b'\n');
    c
}

const MAXLINE: usize = 32;

/// `--- ` / `+++ ` header line with an L-byte symbolic payload: the returned path is compared,
/// length and every byte, with a reference model written over the shadow bytes.
fn change_line<const L: usize>(marker: &'static [u8; 4]) {
    let mut line = [0u8; MAXLINE];
    line[..4].copy_from_slice(marker);
    let mut p = [0u8; L];
    for i in 0..L {
        let c = any_line_byte();
        p[i] = c;
        line[4 + i] = c;
    }
    // SAFETY: all bytes are ASCII.
    let s = unsafe { std::str::from_utf8_unchecked(&line[..4 + L]) };
    let git: bool = kani::any();
    let (r, ev) = parse_diff_header_line(s, git);
    assert!(ev == FileEvent::Change, "a ---/+++ line is a Change event");
    // ---- reference model over the shadow bytes ----
    let (mut lo, mut hi) = (0usize, L);
    let (mut tab_removed, mut prefix_removed) = (false, false);
    // 1. one pair of surrounding double quotes (only when both are present)
    if L >= 2 && p[0] == b'"' && p[L - 1] == b'"' {
        lo = 1;
        hi = L - 1;
    }
    kani::cover!(lo == 1 || L < 2, "quoted path");
    // 2. one trailing TAB (git appends it when the name contains a space)
    if hi > lo && p[hi - 1] == b'\t' {
        hi -= 1;
        tab_removed = true;
    }
    kani::cover!(tab_removed || L == 0, "trailing TAB removed");
    if git {
        // 3. a leading mnemonic prefix, once
        if hi - lo >= 2
            && p[lo + 1] == b'/'
            && (p[lo] == b'a' || p[lo] == b'b' || p[lo] == b'c' || p[lo] == b'i' || p[lo] == b'o' || p[lo] == b'w')
        {
            lo += 2;
            prefix_removed = true;
        }
        kani::cover!(prefix_removed || L < 2, "mnemonic prefix removed");
        kani::cover!(L < 4 || (prefix_removed && hi - lo >= 2 && p[lo] == b'a' && p[lo + 1] == b'/'), "prefix-like first directory kept (a/a/..)");
    } else {
        // 3'. plain diff -u: the file name ends at the first TAB (a timestamp follows)
        let mut end = lo;
        let mut found = false;
        for i in 0..L {
            if !found && i >= lo && i < hi {
                if p[i] == b'\t' {
                    found = true;
                } else {
                    end = i + 1;
                }
            }
        }
        if hi > lo {
            hi = end;
        }
        kani::cover!(found || L < 2, "timestamp column cut off");
    }
    let rb = r.as_bytes();
    assert!(rb.len() == hi - lo, "length of the extracted path");
    for i in 0..L {
        if i < rb.len() {
            assert!(rb[i] == p[lo + i], "bytes of the extracted path");
        }
    }
    kani::cover!(rb.len() == L, "path returned verbatim");
    kani::cover!(true, "end of harness reached");
    std::mem::forget(r);
}

macro_rules! change_harness {
    ($name:ident, $marker:expr, $len:expr, $unwind:expr) => {
        #[kani::proof]
        #[kani::unwind($unwind)]
        fn $name() {
            change_line::<$len>($marker);
        }
    };
}

change_harness!(c14_paths_minus_0, b"--- ", 0, 8);
change_harness!(c14_paths_minus_1, b"--- ", 1, 8);
change_harness!(c14_paths_minus_2, b"--- ", 2, 8);
change_harness!(c14_paths_minus_3, b"--- ", 3, 8);
change_harness!(c14_paths_minus_4, b"--- ", 4, 9);
change_harness!(c14_paths_minus_5, b"--- ", 5, 10);
change_harness!(c14_paths_minus_6, b"--- ", 6, 11);
change_harness!(c14_paths_plus_2, b"+++ ", 2, 8);
change_harness!(c14_paths_plus_3, b"+++ ", 3, 8);
change_harness!(c14_paths_plus_4, b"+++ ", 4, 9);

/// rename/copy/mode lines: the payload is returned exactly, with the right event.
fn verbatim_line<const M: usize, const L: usize>(marker: &'static [u8; M], which: u8) {
    let mut line = [0u8; MAXLINE];
    line[..M].copy_from_slice(marker);
    let mut p = [0u8; L];
    for i in 0..L {
        let c = any_line_byte();
        p[i] = c;
        line[M + i] = c;
    }
    let s = unsafe { std::str::from_utf8_unchecked(&line[..M + L]) };
    let git: bool = kani::any();
    let (r, ev) = parse_diff_header_line(s, git);
    match which {
        0 => assert!(ev == FileEvent::Rename, "rename event"),
        1 => assert!(ev == FileEvent::Copy, "copy event"),
        2 => assert!(ev == FileEvent::Added, "added event"),
        _ => assert!(ev == FileEvent::Removed, "removed event"),
    }
    let rb = r.as_bytes();
    assert!(rb.len() == L, "payload length kept");
    for i in 0..L {
        assert!(rb[i] == p[i], "payload bytes kept");
    }
    kani::cover!(L > 0 && p[0] == b'"', "payload starting with a quote is kept as is");
    kani::cover!(true, "end of harness reached");
    std::mem::forget(r);
}

#[kani::proof]
#[kani::unwind(14)]
fn c14_rename_from_3() {
    verbatim_line::<12, 3>(b"rename from ", 0);
}
#[kani::proof]
#[kani::unwind(12)]
fn c14_rename_to_3() {
    verbatim_line::<10, 3>(b"rename to ", 0);
}
#[kani::proof]
#[kani::unwind(12)]
fn c14_copy_from_3() {
    verbatim_line::<10, 3>(b"copy from ", 1);
}
#[kani::proof]
#[kani::unwind(10)]
fn c14_copy_to_3() {
    verbatim_line::<8, 3>(b"copy to ", 1);
}
#[kani::proof]
#[kani::unwind(16)]
fn c14_new_file_mode_3() {
    verbatim_line::<14, 3>(b"new file mode ", 2);
}
#[kani::proof]
#[kani::unwind(20)]
fn c14_deleted_file_mode_3() {
    verbatim_line::<18, 3>(b"deleted file mode ", 3);
}

/// Any other line is no event (first 4 bytes symbolic but not one of the markers).
#[kani::proof]
#[kani::unwind(20)]
fn c14_no_event_4() {
    let mut line = [0u8; 4];
    for i in 0..4 {
        line[i] = any_line_byte();
    }
    let is_marker = (line[0] == b'-' && line[1] == b'-' && line[2] == b'-' && line[3] == b' ')
        || (line[0] == b'+' && line[1] == b'+' && line[2] == b'+' && line[3] == b' ');
    let s = unsafe { std::str::from_utf8_unchecked(&line[..]) };
    let (r, ev) = parse_diff_header_line(s, kani::any());
    if !is_marker {
        assert!(ev == FileEvent::NoEvent && r.is_empty(), "a 4-byte line that is not a ---/+++ marker is no event");
        kani::cover!(line[0] == b'-' && line[1] == b'-' && line[2] == b'-', "three dashes without the space");
    } else {
        assert!(ev == FileEvent::Change && r.is_empty(), "bare marker: Change with an empty path");
        kani::cover!(true, "bare marker");
    }
    kani::cover!(true, "end of harness reached");
    std::mem::forget(r);
}

/// File name (used to select the syntax) of an extracted path: the bytes after the last '/'
/// (ignoring trailing slashes and a trailing "/." as `Path::file_name` documents), never for ".."
/// or the root.
fn filename<const L: usize>() {
    let mut p = [0u8; L];
    for i in 0..L {
        let c: u8 = kani::any();
        kani::assume(c >= 0x20 && c < 0x7f);
        p[i] = c;
    }
    let s = unsafe { std::str::from_utf8_unchecked(&p) };
    let r = get_filename_from_diff_header_line_file_path(s);
    let has_slash = {
        let mut h = false;
        for i in 0..L {
            if p[i] == b'/' {
                h = true;
            }
        }
        h
    };
    if let Some(name) = r {
        let nb = name.as_bytes();
        assert!(nb.len() >= 1 && nb.len() <= L, "file name is a non-empty part of the path");
        for i in 0..L {
            if i < nb.len() {
                assert!(nb[i] != b'/', "file name contains no separator");
            }
        }
        if !has_slash {
            assert!(nb.len() == L, "a path without separators is its own file name");
        }
        kani::cover!(nb.len() < L, "directory part dropped");
    } else {
        // None only for paths that consist of separators and dots
        for i in 0..L {
            assert!(p[i] == b'/' || p[i] == b'.', "no file name only for paths made of '/' and '.'");
        }
    }
    kani::cover!(r.is_none(), "path without a file name");
    kani::cover!(true, "end of harness reached");
}

#[kani::proof]
#[kani::unwind(8)]
fn c14_filename_3() {
    filename::<3>();
}

// Bare markers (empty payload): the offset constants must not exceed the marker length.
#[kani::proof]
#[kani::unwind(24)]
fn c14_bare_markers() {
    let git: bool = kani::any();
    let (r, ev) = parse_diff_header_line("rename from ", git);
    assert!(r.is_empty() && ev == FileEvent::Rename, "bare 'rename from '");
    std::mem::forget(r);
    let (r, ev) = parse_diff_header_line("rename to ", git);
    assert!(r.is_empty() && ev == FileEvent::Rename, "bare 'rename to '");
    std::mem::forget(r);
    let (r, ev) = parse_diff_header_line("copy from ", git);
    assert!(r.is_empty() && ev == FileEvent::Copy, "bare 'copy from '");
    std::mem::forget(r);
    let (r, ev) = parse_diff_header_line("copy to ", git);
    assert!(r.is_empty() && ev == FileEvent::Copy, "bare 'copy to '");
    std::mem::forget(r);
    let (r, ev) = parse_diff_header_line("new file mode ", git);
    assert!(r.is_empty() && ev == FileEvent::Added, "bare 'new file mode '");
    std::mem::forget(r);
    let (r, ev) = parse_diff_header_line("deleted file mode ", git);
    assert!(r.is_empty() && ev == FileEvent::Removed, "bare 'deleted file mode '");
    std::mem::forget(r);
    kani::cover!(git, "git source");
    kani::cover!(true, "end of harness reached");
}

// ------------------------------------------------------------------------------------------------
// File-header protocol (C14: "exactly one header per file section, with the right paths"): the
// real handlers of one file section's metadata lines, called in the order `StateMachine::consume`
// calls them, on a partial `StateMachine`; rendering and path post-processing cut away by stubs,
// monitors record how many headers are written and from which paths / which `diff` line. The
// line texts are concrete (one harness per section shape); what is symbolic is the configuration
// (`--color-only`, a raw / decorated / omitted file style).
mod headers {
    use super::super::*;
    use crate::delta::Source;
    use crate::handlers::hunk_header::AmbiguousDiffMinusCounter;
    use crate::style::{DecorationStyle, Style};
    use std::mem::MaybeUninit;
    use std::ptr::{addr_of, addr_of_mut};

    // monitor log in scalar fields of the harness-owned Config:
    //   max_line_length          number of header lines written
    //   diff_stat_align_width    log of (minus path length, plus path length) per description, base 16
    //   line_buffer_size         number of lines emitted unchanged
    //   available_terminal_width log of the lengths of the file names used for pending (mode-only) headers, base 64
    unsafe fn bump(c: &Config, which: u8, digit: usize, base: usize) {
        let p = c as *const Config as *mut Config;
        match which {
            0 => {
                let v = addr_of!((*p).max_line_length).read();
                addr_of_mut!((*p).max_line_length).write(v.wrapping_add(1));
            }
            1 => {
                let v = addr_of!((*p).diff_stat_align_width).read();
                addr_of_mut!((*p).diff_stat_align_width).write(v.wrapping_mul(base).wrapping_add(digit));
            }
            2 => {
                let v = addr_of!((*p).line_buffer_size).read();
                addr_of_mut!((*p).line_buffer_size).write(v.wrapping_add(1));
            }
            _ => {
                let v = addr_of!((*p).available_terminal_width).read();
                addr_of_mut!((*p).available_terminal_width).write(v.wrapping_mul(base).wrapping_add(digit));
            }
        }
    }

    fn stub_write_header(_line: &str, _raw_line: &str, _painter: &mut Painter, mode_info: &mut String, config: &Config) -> std::io::Result<()> {
        unsafe { bump(config, 0, 0, 0) };
        // same side effect as the real function: the pending mode information is consumed
        if !mode_info.is_empty() {
            mode_info.truncate(0);
        }
        Ok(())
    }
    fn stub_description(minus_file: &str, plus_file: &str, _comparing: bool, _me: &FileEvent, _pe: &FileEvent, config: &Config) -> String {
        unsafe {
            bump(config, 1, minus_file.len() & 15, 16);
            bump(config, 1, plus_file.len() & 15, 16);
        }
        String::new()
    }
    // file name from "diff --git a/P b/P": graphemes + join, out of reach (probe c14r). The stub
    // returns a name whose length identifies the diff line (len - 20), so the monitors can tell
    // sections apart.
    static NAMES: [&str; 6] = ["", "n", "nn", "nnn", "nnnn", "nnnnn"];
    fn stub_repeated_path(line: &str) -> Option<String> {
        if line.len() == 18 {
            return None; // "diff --git a/X b/Y" with two different paths: no repeated path
        }
        let k = if line.len() >= 20 && line.len() < 26 { line.len() - 20 } else { 0 };
        Some(NAMES[k].to_string())
    }
    fn stub_emit_unchanged<'a>(sm: &mut StateMachine<'a>) -> std::io::Result<bool>
    where
        'a: 'a,
    {
        unsafe { bump(sm.config, 2, 0, 0) };
        Ok(true)
    }
    fn stub_paint_buffered<'p>(_p: &mut Painter<'p>)
    where
        'p: 'p,
    {
    }
    fn stub_set_syntax<'p>(_p: &mut Painter<'p>, _f: Option<&str>)
    where
        'p: 'p,
    {
    }
    fn stub_emit<'p>(_p: &mut Painter<'p>) -> std::io::Result<()>
    where
        'p: 'p,
    {
        Ok(())
    }
    fn stub_relativize(_path: &mut String, _config: &Config) {}
    // only called while the pending (mode-only) header is built: `p` is the file name taken from
    // the remembered diff line
    fn stub_absolute_path(p: &str, c: &Config) -> Option<std::path::PathBuf> {
        unsafe { bump(c, 3, p.len() & 63, 64) };
        None
    }
    fn stub_format(_args: std::fmt::Arguments<'_>) -> String {
        String::new()
    }
    fn stub_delta_unreachable(_m: &str) -> ! {
        panic!("delta_unreachable reached")
    }

    fn stub_state_clone(s: &State) -> State {
        match s {
            State::DiffHeader(DiffType::Unified) => State::DiffHeader(DiffType::Unified),
            State::Unknown => State::Unknown,
            _ => {
                assert!(false, "harness: unexpected state");
                State::Unknown
            }
        }
    }

    struct Cfg {
        color_only: bool,
        handled: bool, // should_handle(): the file style is not "raw without decoration"
    }

    fn setup<'a>(cfg_mem: &'a mut MaybeUninit<Config>, sm_mem: &'a mut MaybeUninit<StateMachine<'a>>) -> (&'a mut StateMachine<'a>, *mut Config, Cfg) {
        let cp = cfg_mem.as_mut_ptr();
        let color_only: bool = kani::any();
        let raw: bool = kani::any();
        let decorated: bool = kani::any();
        let omitted: bool = kani::any();
        let file_style = Style {
            is_raw: raw,
            is_omitted: omitted,
            decoration_style: if decorated { DecorationStyle::Underline(ansi_term::Style::new()) } else { DecorationStyle::NoDecoration },
            ..Style::new()
        };
        unsafe {
            addr_of_mut!((*cp).color_only).write(color_only);
            addr_of_mut!((*cp).file_style).write(file_style);
            addr_of_mut!((*cp).hyperlinks).write(false);
            addr_of_mut!((*cp).file_modified_label).write(String::new());
            addr_of_mut!((*cp).right_arrow).write(String::new());
            addr_of_mut!((*cp).max_line_length).write(0);
            addr_of_mut!((*cp).diff_stat_align_width).write(0);
            addr_of_mut!((*cp).line_buffer_size).write(0);
            addr_of_mut!((*cp).available_terminal_width).write(0);
            addr_of_mut!((*cp).max_syntax_length).write(0);
        }
        let config: &'a Config = unsafe { &*cp };
        let sp = sm_mem.as_mut_ptr();
        unsafe {
            addr_of_mut!((*sp).line).write(String::new());
            addr_of_mut!((*sp).raw_line).write(String::new());
            addr_of_mut!((*sp).state).write(State::Unknown);
            addr_of_mut!((*sp).source).write(Source::GitDiff);
            addr_of_mut!((*sp).minus_file).write(String::new());
            addr_of_mut!((*sp).plus_file).write(String::new());
            addr_of_mut!((*sp).minus_file_event).write(FileEvent::NoEvent);
            addr_of_mut!((*sp).plus_file_event).write(FileEvent::NoEvent);
            addr_of_mut!((*sp).diff_line).write(String::new());
            addr_of_mut!((*sp).mode_info).write(String::new());
            addr_of_mut!((*sp).current_file_pair).write(None);
            addr_of_mut!((*sp).handled_diff_header_header_line_file_pair).write(None);
            addr_of_mut!((*sp).config).write(config);
            addr_of_mut!((*sp).minus_line_counter).write(AmbiguousDiffMinusCounter::not_needed());
            addr_of_mut!((*sp).painter.config).write(config);
        }
        (unsafe { &mut *sp }, cp, Cfg { color_only, handled: !(raw && !decorated) })
    }

    // the part of `StateMachine::consume`'s handler chain that concerns file metadata lines
    fn feed(sm: &mut StateMachine, text: &'static str) {
        unsafe {
            // number of lines fed so far (scratch field max_syntax_length)
            let p = sm.config as *const Config as *mut Config;
            let v = addr_of!((*p).max_syntax_length).read();
            addr_of_mut!((*p).max_syntax_length).write(v.wrapping_add(1));
        }
        sm.line = text.to_string();
        sm.raw_line = text.to_string();
        let handled = sm.handle_diff_header_diff_line().unwrap()
            || sm.handle_diff_header_file_operation_line().unwrap()
            || sm.handle_diff_header_minus_line().unwrap()
            || sm.handle_diff_header_plus_line().unwrap()
            || sm.handle_diff_header_mode_line().unwrap()
            || sm.handle_diff_header_misc_line().unwrap()
            || sm.should_skip_line()
            || sm.emit_line_unchanged().unwrap();
        assert!(handled, "every metadata line is claimed by exactly one step of the chain");
    }

    fn read(cp: *mut Config) -> (usize, usize, usize, usize) {
        unsafe {
            (
                addr_of!((*cp).max_line_length).read(),
                addr_of!((*cp).diff_stat_align_width).read(),
                addr_of!((*cp).line_buffer_size).read(),
                addr_of!((*cp).available_terminal_width).read(),
            )
        }
    }

    macro_rules! header_harness {
        ($name:ident, $body:expr) => {
            #[kani::proof]
            #[kani::unwind(28)]
            #[kani::stub(write_generic_diff_header_header_line, stub_write_header)]
            #[kani::stub(get_file_change_description_from_file_paths, stub_description)]
            #[kani::stub(get_repeated_file_path_from_diff_line, stub_repeated_path)]
            #[kani::stub(crate::delta::StateMachine::emit_line_unchanged, stub_emit_unchanged)]
            #[kani::stub(crate::paint::Painter::paint_buffered_minus_and_plus_lines, stub_paint_buffered)]
            #[kani::stub(crate::paint::Painter::set_syntax, stub_set_syntax)]
            #[kani::stub(crate::paint::Painter::emit, stub_emit)]
            #[kani::stub(crate::utils::path::relativize_path_maybe, stub_relativize)]
            #[kani::stub(crate::utils::path::absolute_path, stub_absolute_path)]
            #[kani::stub(std::fmt::format, stub_format)]
            #[kani::stub(crate::config::delta_unreachable, stub_delta_unreachable)]
            #[kani::stub(<State as std::clone::Clone>::clone, stub_state_clone)]
            fn $name() {
                let mut cfg_mem = MaybeUninit::<Config>::uninit();
                let mut sm_mem = MaybeUninit::<StateMachine>::uninit();
                let (sm, cp, cfg) = setup(&mut cfg_mem, &mut sm_mem);
                let f: fn(&mut StateMachine, *mut Config, &Cfg) = $body;
                f(sm, cp, &cfg);
                if cfg.color_only {
                    // C02: whatever the section looks like, every metadata line leads to exactly
                    // one emission - re-emitted as a header line or passed through unchanged
                    let (headers, _, unchanged, _) = read(cp);
                    let fed = unsafe { addr_of!((*cp).max_syntax_length).read() };
                    assert!(headers + unchanged == fed, "--color-only: one emission per input line, none dropped, none doubled");
                }
                kani::cover!(cfg.color_only, "--color-only");
                kani::cover!(!cfg.color_only && cfg.handled, "file style handled by delta");
                kani::cover!(!cfg.color_only && !cfg.handled, "raw file style without decoration");
                kani::cover!(true, "end of harness reached");
            }
        };
    }

    // A renamed file WITH changes: both the rename lines and the ---/+++ lines name the pair; the
    // header must be written once (#245), from the pair (old, new).
    header_harness!(c14_headers_rename_with_changes, |sm, cp, cfg| {
        feed(sm, "diff --git a/o b/nw"); // 19 bytes
        feed(sm, "similarity index 90%");
        feed(sm, "rename from o");
        feed(sm, "rename to nw");
        feed(sm, "index 1111111..2222222 100644");
        feed(sm, "--- a/o");
        feed(sm, "+++ b/nw");
        sm.handle_pending_line_with_diff_name().unwrap(); // end of input
        let (headers, paths, unchanged, _) = read(cp);
        if cfg.color_only {
            assert!(headers == 4 && unchanged == 3, "--color-only: every rename/---/+++ line is re-emitted as its own line, the others unchanged");
        } else if cfg.handled {
            assert!(headers == 1, "renamed file with changes: exactly one header");
            assert!(paths == 0x12, "the header is built from the pair (old path, new path)");
            assert!(unchanged == 0, "metadata lines are not shown in addition to the header");
        } else {
            assert!(headers == 0 && unchanged == 7, "raw file style: every line passes through unchanged, no header is added");
        }
    });

    // A modified file: one header, from (path, path).
    header_harness!(c14_headers_modified, |sm, cp, cfg| {
        feed(sm, "diff --git a/f b/f");
        feed(sm, "index 1111111..2222222 100644");
        feed(sm, "--- a/f");
        feed(sm, "+++ b/f");
        sm.handle_pending_line_with_diff_name().unwrap();
        let (headers, paths, unchanged, _) = read(cp);
        if cfg.color_only {
            assert!(headers == 2 && unchanged == 2, "--color-only: line for line");
        } else if cfg.handled {
            assert!(headers == 1 && paths == 0x11 && unchanged == 0, "modified file: exactly one header, from its path");
        } else {
            assert!(headers == 0 && unchanged == 4, "raw file style: pass-through");
        }
    });

    // A pure rename (no ---/+++ lines) followed by a modified file: two sections, one header each,
    // the first from the rename pair.
    header_harness!(c14_headers_rename_then_modified, |sm, cp, cfg| {
        feed(sm, "diff --git a/o b/nw");
        feed(sm, "similarity index 100%");
        feed(sm, "rename from o");
        feed(sm, "rename to nw");
        feed(sm, "diff --git a/f b/f");
        feed(sm, "index 1111111..2222222 100644");
        feed(sm, "--- a/f");
        feed(sm, "+++ b/f");
        sm.handle_pending_line_with_diff_name().unwrap();
        let (headers, paths, unchanged, _) = read(cp);
        if cfg.color_only {
            assert!(headers == 4 && unchanged == 4, "--color-only: line for line");
        } else if cfg.handled {
            assert!(headers == 2, "two file sections: two headers");
            assert!(paths == 0x1211, "first header from the rename pair, second from the modified file");
            assert!(unchanged == 0, "no metadata line shown besides the headers");
        } else {
            assert!(headers == 0 && unchanged == 8, "raw file style: pass-through");
        }
    });

    // A mode-only section alone (chmod, no content change), end of input. Under --color-only the
    // three lines are shown as they are and NO mode is cached: a cached mode would be appended to
    // a later header line or written as an extra, synthesized header by the pending-line handler.
    header_harness!(c02_headers_mode_only, |sm, cp, cfg| {
        feed(sm, "diff --git a/s.sh b/s"); // 21 bytes -> stub name "n"
        feed(sm, "old mode 100644");
        feed(sm, "new mode 100755");
        if cfg.color_only {
            assert!(sm.mode_info.is_empty(), "--color-only: the mode lines are shown as they are, no mode is cached for a later header");
        }
        sm.handle_pending_line_with_diff_name().unwrap(); // end of input
        let (headers, _, unchanged, _) = read(cp);
        if cfg.color_only {
            assert!(headers + unchanged == 3, "--color-only: three lines in, three lines out");
        } else if cfg.handled {
            assert!(headers == 1 && unchanged == 0, "one header for the mode change, the mode lines themselves are not shown");
        } else {
            assert!(headers == 0 && unchanged == 3, "raw file style: pass-through");
        }
    });

    // A mode-only section followed by another section: the mode change is reported once, under
    // the name taken from ITS OWN diff line (length 21 -> name "n"), not the next one's (23 -> "nnn").
    header_harness!(c14_headers_mode_only_then_modified, |sm, cp, cfg| {
        feed(sm, "diff --git a/s.sh b/s"); // 21 bytes -> stub name "n"
        feed(sm, "old mode 100644");
        feed(sm, "new mode 100755");
        feed(sm, "diff --git a/main b/mai"); // 23 bytes -> stub name "nnn"
        feed(sm, "index 1111111..2222222 100644");
        feed(sm, "--- a/main");
        feed(sm, "+++ b/main");
        sm.handle_pending_line_with_diff_name().unwrap();
        let (headers, paths, unchanged, names) = read(cp);
        if !cfg.color_only && cfg.handled {
            assert!(headers == 2, "mode-only section and modified section: one header each");
            assert!(paths == 0x44, "the second header is built from the second file's path");
            // the name used for the pending mode header: "n" (from the 21-byte diff line), once
            assert!(names == 1, "the pending mode header takes its file name from its own diff line");
            assert!(unchanged == 0, "no metadata line shown besides the headers");
        }
        kani::cover!(!cfg.color_only && cfg.handled && headers == 2, "both headers written");
    });

    // An added file with content: "new file mode" announces it, ---/+++ confirm the pair
    // (/dev/null, path): one header, built from that pair.
    header_harness!(c14_headers_added_file, |sm, cp, cfg| {
        feed(sm, "diff --git a/nnnn b/nn"); // 22 bytes -> stub name "nn"
        feed(sm, "new file mode 100644");
        feed(sm, "index 0000000..1111111");
        feed(sm, "--- /dev/null");
        feed(sm, "+++ b/nn");
        sm.handle_pending_line_with_diff_name().unwrap();
        let (headers, paths, unchanged, _) = read(cp);
        if !cfg.color_only && cfg.handled {
            assert!(headers == 1, "added file: exactly one header");
            assert!(paths == 0x92, "built from (/dev/null, new path)");
            assert!(unchanged == 0, "no metadata line shown besides the header");
        }
        kani::cover!(!cfg.color_only && cfg.handled && headers == 1, "header written");
    });

    // An EMPTY added file (no ---/+++ lines at all) followed by a modified file: the first
    // section's header is written when the next section starts, from (/dev/null, its own name).
    header_harness!(c14_headers_empty_added_then_modified, |sm, cp, cfg| {
        feed(sm, "diff --git a/nnnn b/nn"); // 22 bytes -> stub name "nn"
        feed(sm, "new file mode 100644");
        feed(sm, "index 0000000..e69de29");
        feed(sm, "diff --git a/f b/f");
        feed(sm, "index 1111111..2222222 100644");
        feed(sm, "--- a/f");
        feed(sm, "+++ b/f");
        sm.handle_pending_line_with_diff_name().unwrap();
        let (headers, paths, unchanged, _) = read(cp);
        if !cfg.color_only && cfg.handled {
            assert!(headers == 2, "an empty added file still gets its header, and the next file its own");
            assert!(paths == 0x9211, "first from (/dev/null, its own name), second from the modified file");
            assert!(unchanged == 0, "no metadata line shown besides the headers");
        }
        kani::cover!(!cfg.color_only && cfg.handled && headers == 2, "both headers written");
    });

    // An empty added file whose lazily written header is flushed twice in a row, as happens when
    // a `commit` line (which flushes) is followed by the next `diff` line (which flushes again
    // before resetting): the header is written once.
    header_harness!(c14_headers_empty_added_flushed_twice, |sm, cp, cfg| {
        feed(sm, "diff --git a/nnnn b/nn");
        feed(sm, "new file mode 100644");
        feed(sm, "index 0000000..e69de29");
        sm.handle_pending_line_with_diff_name().unwrap();
        sm.handle_pending_line_with_diff_name().unwrap();
        let (headers, paths, unchanged, _) = read(cp);
        if !cfg.color_only && cfg.handled {
            assert!(headers == 1, "the lazily written header is written once, however often the flush is requested");
            assert!(paths == 0x92 && unchanged == 0, "from (/dev/null, its own name)");
        }
        kani::cover!(!cfg.color_only && cfg.handled && headers == 1, "header written");
    });

    // A binary file that is renamed AND modified: rename lines, then "Binary files ... differ".
    // The header is written at the rename; the binary line must not cause a second one.
    header_harness!(c14_headers_renamed_binary, |sm, cp, cfg| {
        feed(sm, "diff --git a/o b/nw");
        feed(sm, "similarity index 90%");
        feed(sm, "rename from o");
        feed(sm, "rename to nw");
        feed(sm, "index 1111111..2222222 100644");
        feed(sm, "Binary files a/o and b/nw differ");
        sm.handle_pending_line_with_diff_name().unwrap();
        let (headers, paths, _, _) = read(cp);
        if !cfg.color_only && cfg.handled {
            assert!(headers == 1, "renamed and modified binary file: exactly one header");
            assert!(paths == 0x12, "built from the rename pair");
        }
        kani::cover!(!cfg.color_only && cfg.handled && headers == 1, "header written");
    });

    // A modified file followed by a section whose diff line names two DIFFERENT paths and that has
    // only an index line and a "Binary files ... differ" line (git diff --no-index, concatenated
    // diffs): the second section must not inherit the first one's names - its Binary line is
    // shown as it is and no second header is invented from stale paths.
    header_harness!(c14_headers_modified_then_binary_two_paths, |sm, cp, cfg| {
        feed(sm, "diff --git a/f b/f");
        feed(sm, "index 1111111..2222222 100644");
        feed(sm, "--- a/f");
        feed(sm, "+++ b/f");
        feed(sm, "diff --git a/X b/Y"); // 18 bytes: two different paths
        feed(sm, "index 3333333..4444444 100644");
        feed(sm, "Binary files a/X and b/Y differ");
        sm.handle_pending_line_with_diff_name().unwrap();
        let (headers, paths, unchanged, _) = read(cp);
        if !cfg.color_only && cfg.handled {
            assert!(headers == 1, "only the first section gets a header built from (path, path)");
            assert!(paths == 0x11, "no header is built from the previous section's paths");
            assert!(unchanged == 1, "the Binary files line of the second section is shown as it is");
        }
        kani::cover!(!cfg.color_only && cfg.handled && unchanged == 1, "binary line passed through");
    });
}

// ------------------------------------------------------------------------------------------------
// C02 (`--color-only` is line for line): how many output lines the file-header writer produces.
// The real `write_generic_diff_header_header_line` writing into a real `Vec<u8>`; the drawing
// function is replaced by one that writes exactly one line (whatever the decoration would be is
// not decided here). `--color-only` -> exactly one line per header line, never a blank line
// before it and never omitted, even for the style "omit"; otherwise a blank line plus the header,
// or nothing at all when the file style is "omit".
mod color_only {
    use super::super::*;
    use crate::style::{DecorationStyle, Style};
    use std::mem::MaybeUninit;
    use std::ptr::addr_of_mut;

    fn one_line(w: &mut dyn std::io::Write, _a: &str, _b: &str, _c: &str, _d: &crate::cli::Width, _s: Style, _t: ansi_term::Style) -> std::io::Result<()> {
        w.write_all(b"H\n")
    }
    fn stub_get_draw_function(_d: DecorationStyle) -> (Box<draw::DrawFunction>, bool, ansi_term::Style) {
        let k = 1u8; // see hunk_header.rs: Box::new of a zero-sized fn item crashes kani-compiler 0.68
        (
            Box::new(move |w: &mut dyn std::io::Write, a: &str, b: &str, c: &str, d: &crate::cli::Width, s: Style, t: ansi_term::Style| {
                let _ = k;
                one_line(w, a, b, c, d, s, t)
            }),
            false,
            ansi_term::Style::new(),
        )
    }
    fn stub_format(_args: std::fmt::Arguments<'_>) -> String {
        String::new()
    }

    #[kani::proof]
    #[kani::unwind(6)]
    #[kani::stub(crate::handlers::draw::get_draw_function, stub_get_draw_function)]
    #[kani::stub(std::fmt::format, stub_format)]
    fn c02_file_header_line_count() {
        let mut cfg_mem = MaybeUninit::<Config>::uninit();
        let cp = cfg_mem.as_mut_ptr();
        let color_only: bool = kani::any();
        let omitted: bool = kani::any();
        let raw: bool = kani::any();
        unsafe {
            addr_of_mut!((*cp).color_only).write(color_only);
            addr_of_mut!((*cp).file_style).write(Style { is_omitted: omitted, is_raw: raw, decoration_style: DecorationStyle::NoDecoration, ..Style::new() });
            addr_of_mut!((*cp).decorations_width).write(crate::cli::Width::Variable);
        }
        let config: &Config = unsafe { &*cp };
        let mut sink: Vec<u8> = Vec::with_capacity(8);
        let mut painter_mem = MaybeUninit::<Painter>::uninit();
        let pp = painter_mem.as_mut_ptr();
        unsafe {
            addr_of_mut!((*pp).writer).write(&mut sink);
        }
        let painter: &mut Painter = unsafe { &mut *pp };
        let mut mode_info = String::new();
        let r = write_generic_diff_header_header_line("--- a/f", "--- a/f", painter, &mut mode_info, config);
        assert!(r.is_ok(), "writing into memory cannot fail");
        let mut newlines = 0usize;
        let mut i = 0;
        while i < 4 {
            if i < sink.len() && sink[i] == b'\n' {
                newlines += 1;
            }
            i += 1;
        }
        assert!(sink.len() <= 4, "harness: at most a blank line and the one-line header");
        if color_only {
            assert!(newlines == 1, "--color-only: one output line per header line: no blank line added, never omitted");
        } else if omitted {
            assert!(newlines == 0, "file style omit: nothing is printed");
        } else {
            assert!(newlines == 2, "a blank line and the header");
        }
        kani::cover!(color_only && omitted, "--color-only with an omitted file style");
        kani::cover!(true, "end of harness reached");
        std::mem::forget(sink);
    }
}
