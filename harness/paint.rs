// Kani harnesses for src/paint.rs (injected as `mod verif_kani`).
// Property C15: superimposing syntax highlighting on a diff style takes only the FOREGROUND from
// the syntax style, and only for styles marked syntax-highlighted; background, attributes and all
// other parts of the diff style are kept.
use super::*;

fn any_color() -> Option<ansi_term::Color> {
    let k: u8 = kani::any();
    kani::assume(k < 4);
    match k {
        0 => None,
        1 => Some(ansi_term::Color::Red),
        2 => Some(ansi_term::Color::Fixed(kani::any())),
        _ => Some(ansi_term::Color::RGB(kani::any(), kani::any(), kani::any())),
    }
}

fn any_syntect_color() -> syntect::highlighting::Color {
    syntect::highlighting::Color { r: kani::any(), g: kani::any(), b: kani::any(), a: kani::any() }
}

#[kani::proof]
#[kani::unwind(6)]
fn c15_superimpose_one_char() {
    let diff_style = Style {
        ansi_term_style: ansi_term::Style {
            foreground: any_color(),
            background: any_color(),
            is_bold: kani::any(),
            is_dimmed: kani::any(),
            is_italic: kani::any(),
            is_underline: kani::any(),
            is_blink: kani::any(),
            is_reverse: kani::any(),
            is_hidden: kani::any(),
            is_strikethrough: kani::any(),
        },
        is_emph: kani::any(),
        is_omitted: kani::any(),
        is_raw: kani::any(),
        is_syntax_highlighted: kani::any(),
        decoration_style: crate::style::DecorationStyle::NoDecoration,
    };
    let syn = SyntectStyle { foreground: any_syntect_color(), background: any_syntect_color(), font_style: syntect::highlighting::FontStyle::empty() };
    let null = SyntectStyle { foreground: any_syntect_color(), background: any_syntect_color(), font_style: syntect::highlighting::FontStyle::empty() };
    let true_color: bool = kani::any();
    let syntax_sections = [(syn, "a")];
    let diff_sections = [(diff_style, "a")];
    let out = superimpose_style_sections(&syntax_sections, &diff_sections, true_color, null);
    assert!(out.len() == 1, "one character, one section");
    let got = out[0].0;
    let a = got.ansi_term_style;
    let d = diff_style.ansi_term_style;
    assert!(a.background == d.background, "the diff style's background is kept");
    assert!(
        a.is_bold == d.is_bold && a.is_dimmed == d.is_dimmed && a.is_italic == d.is_italic && a.is_underline == d.is_underline && a.is_blink == d.is_blink && a.is_reverse == d.is_reverse && a.is_hidden == d.is_hidden && a.is_strikethrough == d.is_strikethrough,
        "the diff style's attributes are kept"
    );
    assert!(got.is_emph == diff_style.is_emph && got.is_raw == diff_style.is_raw && got.is_omitted == diff_style.is_omitted && got.is_syntax_highlighted == diff_style.is_syntax_highlighted, "the other parts of the diff style are kept");
    if diff_style.is_syntax_highlighted && syn != null {
        assert!(a.foreground == crate::utils::bat::terminal::to_ansi_color(syn.foreground, true_color), "a syntax-highlighted style takes its foreground from the syntax theme");
    } else {
        assert!(a.foreground == d.foreground, "a style that does not ask for syntax keeps exactly its configured foreground");
    }
    assert!(out[0].1.len() == 1 && out[0].1.as_bytes()[0] == b'a', "the character is unchanged");
    kani::cover!(diff_style.is_syntax_highlighted && syn != null, "foreground from the syntax theme");
    kani::cover!(!diff_style.is_syntax_highlighted && d.foreground.is_some(), "configured foreground kept");
    kani::cover!(true, "end of harness reached");
    std::mem::forget(out);
}
