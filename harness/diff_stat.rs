// Kani harnesses for src/handlers/diff_stat.rs (injected as `mod verif_kani`).
// Property C04: ordinary text is not claimed (and rewritten) by the diffstat handler - the
// handler only looks at lines that start with a space, and only in commit-metadata / unknown
// context; everything else falls through untouched, whatever the options.
use super::*;
use crate::delta::DiffType;
use std::mem::MaybeUninit;
use std::ptr::{addr_of, addr_of_mut};

// the regex-based rewriting (kani-compiler cannot compile regex): a monitor that records that the
// line was offered for rewriting, and declines
fn stub_relativize(_line: &str, _cwd: &str, config: &Config) -> Option<String> {
    unsafe {
        let p = config as *const Config as *mut Config;
        addr_of_mut!((*p).max_line_length).write(1);
    }
    None
}
fn stub_emit<'p>(_p: &mut crate::paint::Painter<'p>) -> std::io::Result<()>
where
    'p: 'p,
{
    Ok(())
}

#[kani::proof]
#[kani::unwind(6)]
#[kani::stub(relativize_path_in_diff_stat_line, stub_relativize)]
#[kani::stub(crate::paint::Painter::emit, stub_emit)]
fn c04_diff_stat_gate() {
    let mut cfg_mem = MaybeUninit::<Config>::uninit();
    let cp = cfg_mem.as_mut_ptr();
    let relative_paths: bool = kani::any();
    let has_cwd: bool = kani::any();
    unsafe {
        addr_of_mut!((*cp).relative_paths).write(relative_paths);
        addr_of_mut!((*cp).cwd_relative_to_repo_root).write(if has_cwd { Some(String::new()) } else { None });
        addr_of_mut!((*cp).max_line_length).write(0);
    }
    let config: &Config = unsafe { &*cp };
    let mut sm_mem = MaybeUninit::<StateMachine>::uninit();
    let sp = sm_mem.as_mut_ptr();
    let k: u8 = kani::any();
    kani::assume(k < 6);
    let state = match k {
        0 => State::Unknown,
        1 => State::CommitMeta,
        2 => State::DiffHeader(DiffType::Unified),
        3 => State::HunkZero(DiffType::Unified, None),
        4 => State::HunkPlus(DiffType::Unified, None),
        _ => State::SubmoduleLog,
    };
    let bytes: [u8; 3] = [kani::any(), b'x', b'|'];
    kani::assume(bytes[0] < 0x80);
    unsafe {
        addr_of_mut!((*sp).line).write(String::from_utf8_unchecked(bytes.to_vec()));
        addr_of_mut!((*sp).raw_line).write(String::from_utf8_unchecked(bytes.to_vec()));
        addr_of_mut!((*sp).state).write(state);
        addr_of_mut!((*sp).config).write(config);
        addr_of_mut!((*sp).painter.config).write(config);
    }
    let sm: &mut StateMachine = unsafe { &mut *sp };
    let r = sm.handle_diff_stat_line();
    let offered = unsafe { addr_of!((*cp).max_line_length).read() } == 1;
    assert!(matches!(r, Ok(false)), "a line the rewriting declines is not claimed");
    if offered {
        assert!(bytes[0] == b' ', "only lines starting with a space are offered to the diffstat rewriting");
        assert!(k <= 1, "only in commit-metadata or unknown context");
        assert!(relative_paths && has_cwd, "only when relative paths are requested and a prefix is known");
    }
    if bytes[0] == b' ' && k <= 1 && relative_paths && has_cwd {
        assert!(offered, "a diffstat-shaped line in the right context is offered");
    }
    kani::cover!(offered, "offered");
    kani::cover!(!offered && relative_paths && has_cwd && k == 0, "ordinary text with --relative-paths in unknown context");
    kani::cover!(true, "end of harness reached");
}
