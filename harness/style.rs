// Kani harnesses for src/style.rs (injected as `mod verif_kani` into a scratch mirror of /repo).
// Property C08 (colour identity), C03 (no panic in the same kernels).
use super::*;

fn any_color() -> Option<ansi_term::Color> {
    use ansi_term::Color::*;
    let k: u8 = kani::any();
    kani::assume(k < 11);
    match k {
        0 => None,
        1 => Some(Black),
        2 => Some(Red),
        3 => Some(Green),
        4 => Some(Yellow),
        5 => Some(Blue),
        6 => Some(Purple),
        7 => Some(Cyan),
        8 => Some(White),
        9 => Some(Fixed(kani::any())),
        _ => Some(RGB(kani::any(), kani::any(), kani::any())),
    }
}

fn any_style() -> ansi_term::Style {
    ansi_term::Style {
        foreground: any_color(),
        background: any_color(),
        is_bold: kani::any(),
        is_dimmed: kani::any(),
        is_italic: kani::any(),
        is_underline: kani::any(),
        is_blink: kani::any(),
        is_reverse: kani::any(),
        is_hidden: kani::any(),
        is_strikethrough: kani::any(),
    }
}

// Reference model of colour identity, written independently of the code under test:
// a colour is identified by (class, payload) where the 8 named colours and Fixed(0..=7) share the
// class "palette" with payload n; Fixed(n>=8) is palette n; RGB is its own class.
fn model_color_id(c: Option<ansi_term::Color>) -> (u8, u8, u8, u8) {
    use ansi_term::Color::*;
    match c {
        None => (0, 0, 0, 0),
        Some(Black) => (1, 0, 0, 0),
        Some(Red) => (1, 1, 0, 0),
        Some(Green) => (1, 2, 0, 0),
        Some(Yellow) => (1, 3, 0, 0),
        Some(Blue) => (1, 4, 0, 0),
        Some(Purple) => (1, 5, 0, 0),
        Some(Cyan) => (1, 6, 0, 0),
        Some(White) => (1, 7, 0, 0),
        Some(Fixed(n)) => (1, n, 0, 0),
        Some(RGB(r, g, b)) => (2, r, g, b),
    }
}

fn model_attrs(s: &ansi_term::Style) -> u8 {
    (s.is_bold as u8)
        | (s.is_dimmed as u8) << 1
        | (s.is_italic as u8) << 2
        | (s.is_underline as u8) << 3
        | (s.is_blink as u8) << 4
        | (s.is_reverse as u8) << 5
        | (s.is_hidden as u8) << 6
        | (s.is_strikethrough as u8) << 7
}

fn model_equal(a: &ansi_term::Style, b: &ansi_term::Style) -> bool {
    model_attrs(a) == model_attrs(b)
        && model_color_id(a.foreground) == model_color_id(b.foreground)
        && model_color_id(a.background) == model_color_id(b.background)
}

/// `ansi_term_style_equality(a, b)` <=> equality of `ansi_term_style_equality_key`s <=> the
/// reference identity, for every pair of styles.
#[kani::proof]
fn c08_colour_identity() {
    let (a, b) = (any_style(), any_style());
    let eq = ansi_term_style_equality(a, b);
    let key_eq = ansi_term_style_equality_key(a) == ansi_term_style_equality_key(b);
    let model = model_equal(&a, &b);
    assert!(eq == model, "ansi_term_style_equality agrees with the reference identity");
    assert!(key_eq == model, "equality of map-styles keys agrees with the reference identity");
    kani::cover!(eq && a.foreground != b.foreground, "Fixed(n<8) identified with a named colour");
    kani::cover!(!eq && model_attrs(&a) == model_attrs(&b), "same attributes, different colours");
    kani::cover!(!eq && model_attrs(&a) != model_attrs(&b), "attributes differ");
    kani::cover!(
        matches!(a.foreground, Some(ansi_term::Color::RGB(..))) && eq,
        "equal RGB colours"
    );
    kani::cover!(true, "end of harness reached");
}

/// The identity is an equivalence whose classes are exactly what delta documents: reflexive,
/// symmetric, and `Style::is_applied_to`'s comparison never identifies an RGB colour with a
/// palette colour nor two styles differing in one attribute.
#[kani::proof]
fn c08_colour_identity_laws() {
    let (a, b) = (any_style(), any_style());
    assert!(ansi_term_style_equality(a, a), "reflexive");
    assert!(
        ansi_term_style_equality(a, b) == ansi_term_style_equality(b, a),
        "symmetric"
    );
    if let (Some(ansi_term::Color::RGB(..)), Some(fb)) = (a.foreground, b.foreground) {
        if !matches!(fb, ansi_term::Color::RGB(..)) {
            assert!(!ansi_term_style_equality(a, b), "RGB never equals a palette colour");
            kani::cover!(true, "RGB vs palette foreground compared");
        }
    }
    let mut c = a;
    c.is_bold = !a.is_bold;
    assert!(!ansi_term_style_equality(a, c), "bold is significant");
    let mut c = a;
    c.is_strikethrough = !a.is_strikethrough;
    assert!(!ansi_term_style_equality(a, c), "strikethrough is significant");
    let mut c = a;
    c.is_reverse = !a.is_reverse;
    assert!(!ansi_term_style_equality(a, c), "reverse is significant");
    kani::cover!(ansi_term_style_equality(a, b), "two equal styles exist");
    kani::cover!(true, "end of harness reached");
}

/// delta's own `Style` equality (derive(PartialEq)) must refine the ansi_term identity when the
/// ansi_term parts are equal field by field: `Style::is_applied_to` compares only the
/// `ansi_term_style` part. Checked: git's default minus style (red foreground, nothing else) is
/// recognised exactly by styles whose foreground is Red or Fixed(1) and that have no other
/// attribute or background.
#[kani::proof]
fn c08_git_default_minus_recognition() {
    let a = any_style();
    let git_minus = ansi_term::Style {
        foreground: Some(ansi_term::Color::Red),
        ..ansi_term::Style::default()
    };
    let recognised = ansi_term_style_equality(a, git_minus);
    let expected = model_attrs(&a) == 0
        && a.background.is_none()
        && (a.foreground == Some(ansi_term::Color::Red)
            || a.foreground == Some(ansi_term::Color::Fixed(1)));
    assert!(recognised == expected, "git's plain removed-line colour is recognised exactly");
    kani::cover!(recognised, "a style recognised as git's default exists");
    kani::cover!(
        !recognised && a.foreground == Some(ansi_term::Color::Red),
        "red with something else is not git's default"
    );
    kani::cover!(true, "end of harness reached");
}
