// Self-test harnesses for the runner's classifier (bin/check --selftest, run by bin/setup).
// Injected into src/minusplus.rs. They check the machinery, not delta.
use super::*;

#[kani::proof]
fn selftest_pass() {
    let a: usize = kani::any();
    let m = MinusPlus::new(a, 7usize);
    assert!(m[Minus] == a && m[Plus] == 7, "MinusPlus indexing");
    kani::cover!(a == 3, "a particular value");
    kani::cover!(true, "end of harness reached");
}

// must come back as a counterexample, and replay natively
#[kani::proof]
fn selftest_fail() {
    let a: u8 = kani::any();
    let m = MinusPlus::new(a, 7u8);
    assert!(m[Minus] != 200, "selftest: deliberately false for a == 200");
    kani::cover!(true, "end of harness reached");
}

// must come back as vacuous (unsatisfiable cover)
#[kani::proof]
fn selftest_vacuous() {
    let a: u8 = kani::any();
    kani::assume(a > 10 && a < 5);
    assert!(a == 0, "never evaluated");
    kani::cover!(true, "end of harness reached");
}

// must come back as inconclusive (unwinding assertion)
#[kani::proof]
#[kani::unwind(3)]
fn selftest_unwind() {
    let n: u8 = kani::any();
    kani::assume(n < 10);
    let mut s = 0u32;
    let mut i = 0;
    while i < n {
        s += 1;
        i += 1;
    }
    assert!(s == n as u32, "loop result");
    kani::cover!(true, "end of harness reached");
}

// must come back as a counterexample of the panic class (arithmetic overflow in "real" code)
#[kani::proof]
fn selftest_overflow() {
    let a: u8 = kani::any();
    let b = a + 1;
    assert!(b != 0, "not reached for 255");
    kani::cover!(true, "end of harness reached");
}
