// Kani harnesses for src/handlers/hunk_header.rs (injected as `mod verif_kani`).
// Property C14: in plain `diff -u` output a removed line whose text starts with "-- " looks like
// a "--- " header; the counter decides which it is.
use super::*;

const N: usize = 6;

#[kani::proof]
#[kani::unwind(9)]
fn c14_minus_counter() {
    // state at start of input / unambiguous input: a "--- " line is always a header
    let mut c = AmbiguousDiffMinusCounter::not_needed();
    assert!(c.three_dashes_expected(), "unambiguous input: '--- ' is a header");
    assert!(!c.must_count(), "unambiguous input: hunk headers do not arm the counter");
    let k: usize = kani::any();
    kani::assume(k <= N);
    let mut i = 0;
    while i < N {
        if i < k {
            c.count_line();
            assert!(c.three_dashes_expected(), "unambiguous input stays unambiguous while lines are counted");
            assert!(!c.must_count(), "unambiguous input never starts counting");
        }
        i += 1;
    }
    // diff -u detected: the next '--- ' is the header, and the next hunk header arms the counter
    let mut c = AmbiguousDiffMinusCounter::prepare_to_count();
    assert!(c.three_dashes_expected(), "after 'diff -u' the next '--- ' is a header");
    assert!(c.must_count(), "after 'diff -u' the hunk header must arm the counter");
    // hunk header announces n removed lines
    let n: usize = kani::any();
    kani::assume(n >= 1 && n <= N);
    let mut c = AmbiguousDiffMinusCounter::count_from(n);
    let mut i = 0;
    while i < N {
        if i < n {
            assert!(!c.three_dashes_expected(), "inside the announced removed lines a '--- ' line is content");
            assert!(c.must_count(), "still in ambiguous mode");
            c.count_line();
        }
        i += 1;
    }
    assert!(c.three_dashes_expected(), "after the announced removed lines the next '--- ' is a header again");
    assert!(c.must_count(), "the next hunk header re-arms the counter");
    kani::cover!(n == N && k == N, "maximal counts");
    kani::cover!(true, "end of harness reached");
}

/// `count_from` for every usize: no conversion panic; a hunk with zero removed lines expects a
/// header at once; huge counts never make a header expected prematurely... or fall back to
/// "not needed" when they do not fit.
#[kani::proof]
fn c14_minus_counter_any_length() {
    let n: usize = kani::any();
    let c = AmbiguousDiffMinusCounter::count_from(n);
    if n == 0 {
        assert!(c.three_dashes_expected(), "no removed lines announced: header expected");
    } else if n <= isize::MAX as usize {
        assert!(!c.three_dashes_expected(), "removed lines announced: first '--- ' is content");
    } else {
        assert!(c.three_dashes_expected(), "count does not fit: falls back to the unambiguous mode");
        kani::cover!(true, "count beyond isize::MAX");
    }
    kani::cover!(n == 1, "one removed line");
    kani::cover!(true, "end of harness reached");
}
