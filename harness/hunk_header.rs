// Kani harnesses for src/handlers/hunk_header.rs (injected as `mod verif_kani`).
// Property C14: in plain `diff -u` output a removed line whose text starts with "-- " looks like
// a "--- " header; the counter decides which it is.
use super::*;

const N: usize = 6;

#[kani::proof]
#[kani::unwind(9)]
fn c14_minus_counter() {
    // state at start of input / unambiguous input: a "--- " line is always a header
    let mut c = AmbiguousDiffMinusCounter::not_needed();
    assert!(c.three_dashes_expected(), "unambiguous input: '--- ' is a header");
    assert!(!c.must_count(), "unambiguous input: hunk headers do not arm the counter");
    let k: usize = kani::any();
    kani::assume(k <= N);
    let mut i = 0;
    while i < N {
        if i < k {
            c.count_line();
            assert!(c.three_dashes_expected(), "unambiguous input stays unambiguous while lines are counted");
            assert!(!c.must_count(), "unambiguous input never starts counting");
        }
        i += 1;
    }
    // diff -u detected: the next '--- ' is the header, and the next hunk header arms the counter
    let mut c = AmbiguousDiffMinusCounter::prepare_to_count();
    assert!(c.three_dashes_expected(), "after 'diff -u' the next '--- ' is a header");
    assert!(c.must_count(), "after 'diff -u' the hunk header must arm the counter");
    // hunk header announces n removed lines
    let n: usize = kani::any();
    kani::assume(n >= 1 && n <= N);
    let mut c = AmbiguousDiffMinusCounter::count_from(n);
    let mut i = 0;
    while i < N {
        if i < n {
            assert!(!c.three_dashes_expected(), "inside the announced removed lines a '--- ' line is content");
            assert!(c.must_count(), "still in ambiguous mode");
            c.count_line();
        }
        i += 1;
    }
    assert!(c.three_dashes_expected(), "after the announced removed lines the next '--- ' is a header again");
    assert!(c.must_count(), "the next hunk header re-arms the counter");
    kani::cover!(n == N && k == N, "maximal counts");
    kani::cover!(true, "end of harness reached");
}

/// `count_from` for every usize: no conversion panic; a hunk with zero removed lines expects a
/// header at once; huge counts never make a header expected prematurely... or fall back to
/// "not needed" when they do not fit.
#[kani::proof]
fn c14_minus_counter_any_length() {
    let n: usize = kani::any();
    let c = AmbiguousDiffMinusCounter::count_from(n);
    if n == 0 {
        assert!(c.three_dashes_expected(), "no removed lines announced: header expected");
    } else if n <= isize::MAX as usize {
        assert!(!c.three_dashes_expected(), "removed lines announced: first '--- ' is content");
    } else {
        assert!(c.three_dashes_expected(), "count does not fit: falls back to the unambiguous mode");
        kani::cover!(true, "count beyond isize::MAX");
    }
    kani::cover!(n == 1, "one removed line");
    kani::cover!(true, "end of harness reached");
}

// ------------------------------------------------------------------------------------------------
// The hunk-header box (C05: "the position printed in a hunk header is the hunk's starting line
// in the NEW file and the path printed there is that of the file the hunk belongs to").
mod header_box {
    use super::super::*;
    use std::mem::MaybeUninit;
    use std::ptr::{addr_of, addr_of_mut};

    // ---- (a) which position is printed: the real
    // `write_line_of_code_with_optional_path_and_line_number` with a monitor in place of the
    // (local) `paint_file_path_with_line_number`
    #[allow(clippy::too_many_arguments)]
    fn stub_paint_path(line_number: Option<usize>, plus_file: &str, _fs: &Style, _ls: &Style, _ip: &HunkHeaderIncludeFilePath, _il: &HunkHeaderIncludeLineNumber, _sep: &str, config: &Config) -> String {
        unsafe {
            let p = config as *const Config as *mut Config;
            addr_of_mut!((*p).max_line_length).write(match line_number {
                Some(n) => n,
                None => usize::MAX,
            });
            addr_of_mut!((*p).max_syntax_length).write(1 + plus_file.len());
        }
        String::new()
    }

    // never executed in the harness (nothing is left to draw) but reachable for the compiler:
    // the drawing code reaches process::exit, on which kani-compiler 0.68 crashes
    fn noop_draw(_w: &mut dyn std::io::Write, _a: &str, _b: &str, _c: &str, _d: &crate::cli::Width, _s: Style, _t: ansi_term::Style) -> std::io::Result<()> {
        Ok(())
    }
    fn stub_get_draw_function(_d: DecorationStyle) -> (Box<draw::DrawFunction>, bool, ansi_term::Style) {
        // a closure with a captured byte: kani-compiler 0.68 crashes on Box::new of a zero-sized fn item
        let k = 1u8;
        (
            Box::new(move |w: &mut dyn std::io::Write, a: &str, b: &str, c: &str, d: &crate::cli::Width, s: Style, t: ansi_term::Style| {
                let _ = k;
                noop_draw(w, a, b, c, d, s, t)
            }),
            false,
            ansi_term::Style::new(),
        )
    }
    fn stub_write_to_output_buffer(_f: &str, _s: &str, _l: String, _ss: Option<StyleSectionSpecifier>, _h: &HunkHeaderIncludeHunkLabel, _p: &mut Painter, _c: &Config) {}
    fn stub_write_hunk_header_raw(_p: &mut Painter, _l: &str, _r: &str, _c: &Config) -> std::io::Result<()> {
        Ok(())
    }

    fn position<const N: usize>() {
        let mut cfg_mem = MaybeUninit::<Config>::uninit();
        let cp = cfg_mem.as_mut_ptr();
        unsafe {
            addr_of_mut!((*cp).color_only).write(false);
            addr_of_mut!((*cp).max_line_length).write(7);
            addr_of_mut!((*cp).max_syntax_length).write(0);
        }
        let config: &Config = unsafe { &*cp };
        let mut painter_mem = MaybeUninit::<Painter>::uninit();
        let painter: &mut Painter = unsafe { &mut *painter_mem.as_mut_ptr() }; // only passed through
        let mut v: Vec<(usize, usize)> = Vec::with_capacity(N);
        let mut shadow = [(0usize, 0usize); N];
        for i in 0..N {
            let e: (usize, usize) = (kani::any(), kani::any());
            shadow[i] = e;
            v.push(e);
        }
        let plain = Style::new();
        let r = write_line_of_code_with_optional_path_and_line_number(
            "",
            &v,
            None,
            painter,
            "",
            "file",
            DecorationStyle::NoDecoration,
            &plain,
            &plain,
            &HunkHeaderIncludeFilePath::Yes,
            &HunkHeaderIncludeLineNumber::Yes,
            &HunkHeaderIncludeHunkLabel::Yes,
            &HunkHeaderIncludeCodeFragment::No,
            ":",
            config,
        );
        assert!(r.is_ok(), "nothing to draw, nothing fails");
        let (pos, path) = unsafe { (addr_of!((*cp).max_line_length).read(), addr_of!((*cp).max_syntax_length).read()) };
        assert!(path == 5, "the path handed in is the path printed");
        assert!(pos == shadow[N - 1].0, "the position printed is the start of the hunk in the new file (last entry of the header), whatever the lengths");
        kani::cover!(shadow[N - 1].1 == 0 && shadow[0].0 != shadow[N - 1].0, "pure deletion: new-side length 0, starts differ");
        kani::cover!(true, "end of harness reached");
        std::mem::forget(v);
    }

    #[kani::proof]
    #[kani::unwind(5)]
    #[kani::stub(paint_file_path_with_line_number, stub_paint_path)]
    #[kani::stub(crate::handlers::draw::get_draw_function, stub_get_draw_function)]
    #[kani::stub(write_to_output_buffer, stub_write_to_output_buffer)]
    fn c05_hunk_header_position_2() {
        position::<2>();
    }
    #[kani::proof]
    #[kani::unwind(5)]
    #[kani::stub(paint_file_path_with_line_number, stub_paint_path)]
    #[kani::stub(crate::handlers::draw::get_draw_function, stub_get_draw_function)]
    #[kani::stub(write_to_output_buffer, stub_write_to_output_buffer)]
    fn c05_hunk_header_position_3() {
        position::<3>();
    }

    // ---- (b) which path is printed: the real `emit_hunk_header_line` with the box writer
    // replaced by a monitor
    #[allow(clippy::too_many_arguments)]
    fn stub_write_box(
        _code_fragment: &str,
        line_numbers_and_hunk_lengths: &[(usize, usize)],
        _style_sections: Option<StyleSectionSpecifier>,
        _painter: &mut Painter,
        _line: &str,
        plus_file: &str,
        _decoration_style: DecorationStyle,
        _file_style: &Style,
        _line_number_style: &Style,
        _include_file_path: &HunkHeaderIncludeFilePath,
        _include_line_number: &HunkHeaderIncludeLineNumber,
        _include_hunk_label: &HunkHeaderIncludeHunkLabel,
        _include_code_fragment: &HunkHeaderIncludeCodeFragment,
        _file_path_separator: &str,
        config: &Config,
    ) -> std::io::Result<()> {
        unsafe {
            let p = config as *const Config as *mut Config;
            addr_of_mut!((*p).max_syntax_length).write(1 + plus_file.len());
            addr_of_mut!((*p).max_line_length).write(line_numbers_and_hunk_lengths.len());
        }
        Ok(())
    }
    fn stub_paint_buffered<'p>(_p: &mut Painter<'p>)
    where
        'p: 'p,
    {
    }
    fn stub_set_highlighter<'p>(_p: &mut Painter<'p>)
    where
        'p: 'p,
    {
    }
    fn stub_emit<'p>(_p: &mut Painter<'p>) -> std::io::Result<()>
    where
        'p: 'p,
    {
        Ok(())
    }

    // KIND: 0 both files real (old "old.rs", new "newer.rs"), 1 removed file (new side /dev/null),
    //       2 added file (old side /dev/null)
    fn path<const KIND: u8>() {
        let mut cfg_mem = MaybeUninit::<Config>::uninit();
        let cp = cfg_mem.as_mut_ptr();
        let plain = Style::new();
        unsafe {
            addr_of_mut!((*cp).color_only).write(true); // no blank line through the (absent) writer
            addr_of_mut!((*cp).line_numbers).write(false);
            addr_of_mut!((*cp).hunk_header_style).write(plain);
            addr_of_mut!((*cp).hunk_header_file_style).write(plain);
            addr_of_mut!((*cp).hunk_header_line_number_style).write(plain);
            addr_of_mut!((*cp).hunk_header_style_include_file_path).write(HunkHeaderIncludeFilePath::Yes);
            addr_of_mut!((*cp).hunk_header_style_include_line_number).write(HunkHeaderIncludeLineNumber::Yes);
            addr_of_mut!((*cp).hunk_header_style_include_code_fragment).write(HunkHeaderIncludeCodeFragment::Yes);
            addr_of_mut!((*cp).max_line_length).write(0);
            addr_of_mut!((*cp).max_syntax_length).write(0);
        }
        let config: &Config = unsafe { &*cp };
        let mut sm_mem = MaybeUninit::<StateMachine>::uninit();
        let sp = sm_mem.as_mut_ptr();
        let (minus, plus) = match KIND {
            0 => ("old.rs", "newer.rs"),
            1 => ("old.rs", "/dev/null"),
            _ => ("/dev/null", "newer.rs"),
        };
        unsafe {
            addr_of_mut!((*sp).minus_file).write(minus.to_string());
            addr_of_mut!((*sp).plus_file).write(plus.to_string());
            addr_of_mut!((*sp).config).write(config);
            addr_of_mut!((*sp).painter.config).write(config);
        }
        let sm: &mut StateMachine = unsafe { &mut *sp };
        let parsed = ParsedHunkHeader { code_fragment: String::new(), line_numbers_and_hunk_lengths: vec![(kani::any(), kani::any()), (kani::any(), kani::any())] };
        let r = sm.emit_hunk_header_line(&parsed, "@@ -1 +1 @@", "@@ -1 +1 @@");
        assert!(matches!(r, Ok(true)), "hunk header handled");
        let (n, path_len) = unsafe { (addr_of!((*cp).max_line_length).read(), addr_of!((*cp).max_syntax_length).read()) };
        assert!(n == 2, "the parsed coordinates are handed to the box writer");
        let want = match KIND {
            0 => 1 + 8, // "newer.rs": the hunk belongs to the new file
            1 => 1 + 6, // removed file: only the old name exists
            _ => 1 + 8,
        };
        assert!(path_len == want, "the hunk header shows the new file's path, or the old one for a removed file");
        kani::cover!(true, "end of harness reached");
        std::mem::forget(parsed);
    }

    macro_rules! path_harness {
        ($name:ident, $k:expr) => {
            #[kani::proof]
            #[kani::unwind(12)]
            #[kani::stub(write_line_of_code_with_optional_path_and_line_number, stub_write_box)]
            #[kani::stub(write_hunk_header_raw, stub_write_hunk_header_raw)]
            #[kani::stub(crate::paint::Painter::paint_buffered_minus_and_plus_lines, stub_paint_buffered)]
            #[kani::stub(crate::paint::Painter::set_highlighter, stub_set_highlighter)]
            #[kani::stub(crate::paint::Painter::emit, stub_emit)]
            fn $name() {
                path::<$k>();
            }
        };
    }
    path_harness!(c05_hunk_header_path_renamed, 0);
    path_harness!(c05_hunk_header_path_removed, 1);
    path_harness!(c05_hunk_header_path_added, 2);
}

// ------------------------------------------------------------------------------------------------
// Plain `diff -u` input: a removed line whose text starts with "-- " reads "--- ..." and must not
// be taken for a file header while the hunk still expects removed lines - the counter has to be
// armed when the hunk header is READ, before the first hunk line is offered to the header
// handlers (C14 / C01). Real: `handle_hunk_header_line`, `handle_diff_header_minus_line`,
// `handle_diff_header_plus_line`, the counter. The regex parser of the hunk header (which
// kani-compiler cannot compile) is replaced by a stub that reads the removed-line count from the
// digit at a fixed position of the header line.
mod diff_u {
    use super::super::*;
    use crate::delta::Source;
    use crate::handlers::diff_header::FileEvent;
    use std::mem::MaybeUninit;
    use std::ptr::addr_of_mut;

    fn stub_parse_hunk_header(line: &str) -> Option<ParsedHunkHeader> {
        let n = (line.as_bytes()[6] - b'0') as usize; // "@@ -1,N +1,N @@"
        let mut v = Vec::with_capacity(2);
        v.push((1usize, n));
        v.push((1usize, n));
        Some(ParsedHunkHeader { code_fragment: String::new(), line_numbers_and_hunk_lengths: v })
    }
    fn stub_write_header(_line: &str, _raw_line: &str, _painter: &mut Painter, _mode_info: &mut String, _config: &Config) -> std::io::Result<()> {
        Ok(())
    }
    fn stub_description(_m: &str, _p: &str, _c: bool, _me: &FileEvent, _pe: &FileEvent, _config: &Config) -> String {
        String::new()
    }
    fn stub_paint_buffered<'p>(_p: &mut Painter<'p>)
    where
        'p: 'p,
    {
    }
    fn stub_set_syntax<'p>(_p: &mut Painter<'p>, _f: Option<&str>)
    where
        'p: 'p,
    {
    }
    fn stub_emit<'p>(_p: &mut Painter<'p>) -> std::io::Result<()>
    where
        'p: 'p,
    {
        Ok(())
    }
    fn stub_relativize(_path: &mut String, _config: &Config) {}
    fn stub_format(_args: std::fmt::Arguments<'_>) -> String {
        String::new()
    }
    fn stub_delta_unreachable(_m: &str) -> ! {
        panic!("delta_unreachable reached")
    }
    fn stub_state_clone(s: &State) -> State {
        match s {
            State::DiffHeader(DiffType::Unified) => State::DiffHeader(DiffType::Unified),
            State::Unknown => State::Unknown,
            _ => {
                assert!(false, "harness: unexpected state");
                State::Unknown
            }
        }
    }

    #[kani::proof]
    #[kani::unwind(18)]
    #[kani::stub(parse_hunk_header, stub_parse_hunk_header)]
    #[kani::stub(crate::handlers::diff_header::write_generic_diff_header_header_line, stub_write_header)]
    #[kani::stub(crate::handlers::diff_header::get_file_change_description_from_file_paths, stub_description)]
    #[kani::stub(crate::paint::Painter::paint_buffered_minus_and_plus_lines, stub_paint_buffered)]
    #[kani::stub(crate::paint::Painter::set_syntax, stub_set_syntax)]
    #[kani::stub(crate::paint::Painter::emit, stub_emit)]
    #[kani::stub(crate::utils::path::relativize_path_maybe, stub_relativize)]
    #[kani::stub(std::fmt::format, stub_format)]
    #[kani::stub(crate::config::delta_unreachable, stub_delta_unreachable)]
    #[kani::stub(<State as std::clone::Clone>::clone, stub_state_clone)]
    fn c14_diff_u_dashes_inside_hunk() {
        let mut cfg_mem = MaybeUninit::<Config>::uninit();
        let cp = cfg_mem.as_mut_ptr();
        unsafe {
            addr_of_mut!((*cp).color_only).write(kani::any());
            addr_of_mut!((*cp).file_style).write(Style::new());
        }
        let config: &Config = unsafe { &*cp };
        let mut sm_mem = MaybeUninit::<StateMachine>::uninit();
        let sp = sm_mem.as_mut_ptr();
        unsafe {
            addr_of_mut!((*sp).line).write(String::new());
            addr_of_mut!((*sp).raw_line).write(String::new());
            addr_of_mut!((*sp).state).write(State::Unknown);
            addr_of_mut!((*sp).source).write(Source::DiffUnified);
            addr_of_mut!((*sp).minus_file).write(String::new());
            addr_of_mut!((*sp).plus_file).write(String::new());
            addr_of_mut!((*sp).minus_file_event).write(FileEvent::NoEvent);
            addr_of_mut!((*sp).plus_file_event).write(FileEvent::NoEvent);
            addr_of_mut!((*sp).mode_info).write(String::new());
            addr_of_mut!((*sp).current_file_pair).write(None);
            addr_of_mut!((*sp).handled_diff_header_header_line_file_pair).write(None);
            addr_of_mut!((*sp).config).write(config);
            // what `consume` does when the input starts with "--- "
            addr_of_mut!((*sp).minus_line_counter).write(AmbiguousDiffMinusCounter::prepare_to_count());
            addr_of_mut!((*sp).painter.config).write(config);
        }
        let sm: &mut StateMachine = unsafe { &mut *sp };
        // (the handlers' boolean result only says whether the line was also *emitted*, which
        // depends on --color-only; whether a line was taken for a header shows in the recorded path)
        sm.line = "--- a.lua".to_string();
        let _ = sm.handle_diff_header_minus_line();
        assert!(sm.minus_file.len() == 5, "the first '--- ' line is the file header: old path recorded");
        sm.line = "+++ bb.lua".to_string();
        let _ = sm.handle_diff_header_plus_line();
        assert!(sm.plus_file.len() == 6, "the '+++ ' line is the file header: new path recorded");
        // hunk header announcing n removed lines
        let n: u8 = kani::any();
        kani::assume(n >= 1 && n <= 3);
        let mut hdr = *b"@@ -1,N +1,N @@";
        hdr[6] = b'0' + n;
        hdr[11] = b'0' + n;
        sm.line = unsafe { String::from_utf8_unchecked(hdr.to_vec()) };
        assert!(matches!(sm.handle_hunk_header_line(), Ok(true)), "the hunk header is recognised");
        // every one of the n removed lines may read "--- something": never a header
        let mut i = 0;
        while i < 3 {
            if i < n {
                sm.line = "--- xyz".to_string();
                let r = sm.handle_diff_header_minus_line();
                assert!(matches!(r, Ok(false)), "a removed line reading '--- ...' inside the hunk is not claimed by the header handler");
                assert!(sm.minus_file.len() == 5, "a removed line reading '--- ...' inside the hunk is content, also the FIRST line of the hunk: the old path is untouched");
                sm.minus_line_counter.count_line(); // what handle_hunk_line does for it
            }
            i += 1;
        }
        sm.line = "--- next.lua".to_string();
        std::mem::forget(std::mem::replace(&mut sm.state, State::DiffHeader(DiffType::Unified)));
        let _ = sm.handle_diff_header_minus_line();
        assert!(sm.minus_file.len() == 8, "after the announced removed lines '--- ' starts the next file");
        kani::cover!(n == 1, "one removed line");
        kani::cover!(n == 3, "three removed lines");
        kani::cover!(true, "end of harness reached");
    }
}

// ------------------------------------------------------------------------------------------------
// C02 (`--color-only` is line for line): how many output lines a hunk header produces. The real
// `emit_hunk_header_line`, `write_hunk_header_raw` and
// `write_line_of_code_with_optional_path_and_line_number` writing into a real `Vec<u8>`; the
// drawing function is replaced by one that writes exactly one line.
mod color_only {
    use super::super::*;
    use std::mem::MaybeUninit;
    use std::ptr::addr_of_mut;

    fn one_line(w: &mut dyn std::io::Write, _a: &str, _b: &str, _c: &str, _d: &crate::cli::Width, _s: Style, _t: ansi_term::Style) -> std::io::Result<()> {
        w.write_all(b"H\n")
    }
    fn stub_get_draw_function(_d: DecorationStyle) -> (Box<draw::DrawFunction>, bool, ansi_term::Style) {
        let k = 1u8;
        (
            Box::new(move |w: &mut dyn std::io::Write, a: &str, b: &str, c: &str, d: &crate::cli::Width, s: Style, t: ansi_term::Style| {
                let _ = k;
                one_line(w, a, b, c, d, s, t)
            }),
            false,
            ansi_term::Style::new(),
        )
    }
    fn stub_write_to_output_buffer(_f: &str, _s: &str, _l: String, _ss: Option<StyleSectionSpecifier>, _h: &HunkHeaderIncludeHunkLabel, _p: &mut Painter, _c: &Config) {}
    #[allow(clippy::too_many_arguments)]
    fn stub_paint_path(_n: Option<usize>, _p: &str, _fs: &Style, _ls: &Style, _ip: &HunkHeaderIncludeFilePath, _il: &HunkHeaderIncludeLineNumber, _sep: &str, _c: &Config) -> String {
        String::new()
    }
    fn stub_format(_args: std::fmt::Arguments<'_>) -> String {
        String::new()
    }
    // monitor: the buffered removed / added lines of the previous hunk are painted ...
    fn stub_paint_buffered<'p>(p: &mut Painter<'p>)
    where
        'p: 'p,
    {
        unsafe {
            let c = p.config as *const Config as *mut Config;
            addr_of_mut!((*c).max_line_length).write(1);
        }
    }
    fn stub_set_highlighter<'p>(_p: &mut Painter<'p>)
    where
        'p: 'p,
    {
    }
    // ... and written out (only counts if painting was requested first)
    fn stub_emit<'p>(p: &mut Painter<'p>) -> std::io::Result<()>
    where
        'p: 'p,
    {
        unsafe {
            let c = p.config as *const Config as *mut Config;
            if std::ptr::addr_of!((*c).max_line_length).read() == 1 {
                addr_of_mut!((*c).max_syntax_length).write(1);
            }
        }
        Ok(())
    }

    #[kani::proof]
    #[kani::unwind(8)]
    #[kani::stub(crate::handlers::draw::get_draw_function, stub_get_draw_function)]
    #[kani::stub(write_to_output_buffer, stub_write_to_output_buffer)]
    #[kani::stub(paint_file_path_with_line_number, stub_paint_path)]
    #[kani::stub(std::fmt::format, stub_format)]
    #[kani::stub(crate::paint::Painter::paint_buffered_minus_and_plus_lines, stub_paint_buffered)]
    #[kani::stub(crate::paint::Painter::set_highlighter, stub_set_highlighter)]
    #[kani::stub(crate::paint::Painter::emit, stub_emit)]
    fn c02_hunk_header_line_count() {
        let mut cfg_mem = MaybeUninit::<Config>::uninit();
        let cp = cfg_mem.as_mut_ptr();
        let color_only: bool = kani::any();
        let omitted: bool = kani::any();
        let raw: bool = kani::any();
        let plain = Style::new();
        unsafe {
            addr_of_mut!((*cp).color_only).write(color_only);
            addr_of_mut!((*cp).line_numbers).write(false);
            addr_of_mut!((*cp).hunk_header_style).write(Style { is_omitted: omitted, is_raw: raw, decoration_style: DecorationStyle::NoDecoration, ..Style::new() });
            addr_of_mut!((*cp).hunk_header_file_style).write(plain);
            addr_of_mut!((*cp).hunk_header_line_number_style).write(plain);
            addr_of_mut!((*cp).hunk_header_style_include_file_path).write(HunkHeaderIncludeFilePath::No);
            addr_of_mut!((*cp).hunk_header_style_include_line_number).write(HunkHeaderIncludeLineNumber::No);
            addr_of_mut!((*cp).hunk_header_style_include_code_fragment).write(HunkHeaderIncludeCodeFragment::Yes);
            addr_of_mut!((*cp).decorations_width).write(crate::cli::Width::Variable);
            addr_of_mut!((*cp).null_style).write(plain);
            addr_of_mut!((*cp).max_line_length).write(0);
            addr_of_mut!((*cp).max_syntax_length).write(0);
        }
        let config: &Config = unsafe { &*cp };
        let mut sink: Vec<u8> = Vec::with_capacity(8);
        let mut sm_mem = MaybeUninit::<StateMachine>::uninit();
        let sp = sm_mem.as_mut_ptr();
        unsafe {
            addr_of_mut!((*sp).minus_file).write(String::new());
            addr_of_mut!((*sp).plus_file).write(String::new());
            addr_of_mut!((*sp).config).write(config);
            addr_of_mut!((*sp).painter.config).write(config);
            addr_of_mut!((*sp).painter.writer).write(&mut sink);
            addr_of_mut!((*sp).painter.output_buffer).write(String::new());
        }
        let sm: &mut StateMachine = unsafe { &mut *sp };
        let parsed = ParsedHunkHeader { code_fragment: String::new(), line_numbers_and_hunk_lengths: vec![(1, 1), (1, 1)] };
        let r = sm.emit_hunk_header_line(&parsed, "@@ -1 +1 @@", "@@ -1 +1 @@");
        assert!(matches!(r, Ok(true)), "hunk header handled");
        let (painted, emitted) = unsafe { (std::ptr::addr_of!((*cp).max_line_length).read(), std::ptr::addr_of!((*cp).max_syntax_length).read()) };
        assert!(painted == 1 && emitted == 1, "C01: whatever the hunk-header style, the lines buffered from the previous hunk are painted and written out before the next hunk starts");
        let mut newlines = 0usize;
        let mut i = 0;
        while i < 4 {
            if i < sink.len() && sink[i] == b'\n' {
                newlines += 1;
            }
            i += 1;
        }
        assert!(sink.len() <= 4, "harness: at most a blank line and a one-line header");
        if color_only {
            assert!(newlines == 1, "--color-only: a hunk header line gives exactly one output line, whatever the hunk-header style");
        } else {
            assert!(newlines >= 1 && newlines <= 2, "otherwise: the header and/or a blank line");
        }
        kani::cover!(color_only && omitted && !raw, "--color-only with an omitted hunk-header style");
        kani::cover!(color_only && raw, "--color-only with the raw hunk-header style");
        kani::cover!(true, "end of harness reached");
        std::mem::forget(parsed);
        std::mem::forget(sink);
    }
}
