// Kani harnesses for src/utils/bat/terminal.rs (injected as `mod verif_kani`).
// Property C12 (colour values mean what the style language says), C03.
use super::*;

/// `to_ansi_color` for every RGBA value and both colour modes.
#[kani::proof]
fn c12_to_ansi_color() {
    let c = highlighting::Color { r: kani::any(), g: kani::any(), b: kani::any(), a: kani::any() };
    let tc: bool = kani::any();
    let out = to_ansi_color(c, tc);
    if c.a == 1 {
        assert!(out.is_none(), "alpha 1 encodes the terminal's default colour");
        kani::cover!(true, "terminal default");
    } else if c.a == 0 {
        let expected = match c.r {
            0 => Color::Black,
            1 => Color::Red,
            2 => Color::Green,
            3 => Color::Yellow,
            4 => Color::Blue,
            5 => Color::Purple,
            6 => Color::Cyan,
            7 => Color::White,
            n => Fixed(n),
        };
        assert!(out == Some(expected), "alpha 0 encodes palette entry r: named colour below 8, Fixed(r) above");
        kani::cover!(c.r == 7, "palette entry 7");
        kani::cover!(c.r == 8, "palette entry 8");
    } else if tc {
        assert!(out == Some(RGB(c.r, c.g, c.b)), "24-bit mode keeps the exact RGB value");
        kani::cover!(c.a == 255, "opaque 24-bit colour");
    } else {
        let n = match out {
            Some(Fixed(n)) => n,
            _ => {
                assert!(false, "256-colour mode yields a palette entry");
                0
            }
        };
        assert!(n >= 16, "an RGB colour never lands on one of the 16 user-configurable colours");
        if c.r == c.g && c.g == c.b {
            assert!(n == 16 || n == 231 || n >= 232 || (n - 16) % 43 == 0, "a grey stays a grey (black, white, grey ramp or cube diagonal)");
        }
        kani::cover!(n == 16, "approximated to black (16)");
        kani::cover!(n == 231, "approximated to white (231)");
        kani::cover!(n >= 232, "approximated to a grey ramp entry");
    }
    kani::cover!(true, "end of harness reached");
}

/// The 256-colour approximation is stable on the palette itself: the 6x6x6 colour cube levels
/// {0, 95, 135, 175, 215, 255} map to their own cube index, so a colour that is exactly
/// representable is not shifted.
#[kani::proof]
fn c12_ansi256_cube_fixpoint() {
    const LEVELS: [u8; 6] = [0, 95, 135, 175, 215, 255];
    let (i, j, k): (u8, u8, u8) = (kani::any(), kani::any(), kani::any());
    kani::assume(i < 6 && j < 6 && k < 6);
    let c = highlighting::Color { r: LEVELS[i as usize], g: LEVELS[j as usize], b: LEVELS[k as usize], a: 255 };
    let out = to_ansi_color(c, false);
    let idx = 16 + 36 * i + 6 * j + k;
    assert!(out == Some(Fixed(idx)), "a colour of the 6x6x6 cube maps to its own palette index");
    kani::cover!(idx == 196, "pure red of the cube");
    kani::cover!(true, "end of harness reached");
}

/// The 24 entries of the grey ramp (232..=255, value 8 + 10 i) map to themselves.
#[kani::proof]
fn c12_ansi256_grey_fixpoint() {
    let i: u8 = kani::any();
    kani::assume(i < 24);
    let v = 8 + 10 * i;
    let c = highlighting::Color { r: v, g: v, b: v, a: 255 };
    let out = to_ansi_color(c, false);
    assert!(out == Some(Fixed(232 + i)), "a grey of the grey ramp maps to its own palette index");
    kani::cover!(i == 23, "lightest ramp grey");
    kani::cover!(true, "end of harness reached");
}
