// Kani harnesses for src/handlers/hunk.rs (injected as `mod verif_kani`).
// Property C01: "every hunk line is shown exactly once, in order" - the buffering and flush
// discipline of `StateMachine::handle_hunk_line` + `Painter::paint_buffered_minus_and_plus_lines`.
//
// Executed for real: `handle_hunk_line` (buffer-size flush, classification dispatch, flush on
// sub-hunk boundaries, pushes to the minus/plus buffers, direct emission of zero and
// unrecognised lines), `test_hunk_line`, `Painter::paint_buffered_minus_and_plus_lines`
// (including the clearing of the buffers), `AmbiguousDiffMinusCounter::count_line`.
// Cut away by stubs: classification of the line text (`new_line_state`: regex-free but does not
// finish symbolic execution) is replaced by a symbolic choice of the line kind; rendering
// (`paint_minus_and_plus_lines`, `Painter::paint_zero_line`, `tabs::expand`, `prepare`) is
// replaced by monitors that record WHICH line reaches the output in WHICH order; `Painter::emit`
// (writer) is a no-op.
//
// A line's identity travels in the `State` stored with it (`DiffType::Combined(Number(id))`), the
// monitors append `id + 1` as a base-8 digit to a log kept in a scalar field of the
// harness-owned partial `Config` (a `static mut` written from stub bodies is mishandled by
// Kani 0.68, see side_by_side.rs).
use super::*;
use crate::handlers::hunk_header::AmbiguousDiffMinusCounter;
use crate::paint::Painter;
use std::mem::MaybeUninit;
use std::ptr::{addr_of, addr_of_mut};

// Config fields used as harness scratch (never read by the code under test here):
//   max_line_length       : log of emitted line ids (base 8)
//   max_syntax_length     : kind of the line being handled (0 minus, 1 plus, 2 zero, 3 unrecognised)
//   diff_stat_align_width : id of the line being handled
unsafe fn log_push(c: &Config, id: usize) {
    let p = c as *const Config as *mut Config;
    let v = addr_of!((*p).max_line_length).read();
    addr_of_mut!((*p).max_line_length).write(v.wrapping_mul(8).wrapping_add(id + 1));
}

fn id_of(state: &State) -> usize {
    match state {
        State::HunkMinus(DiffType::Combined(MergeParents::Number(n), _), _) => *n,
        State::HunkPlus(DiffType::Combined(MergeParents::Number(n), _), _) => *n,
        State::HunkZero(DiffType::Combined(MergeParents::Number(n), _), _) => *n,
        _ => 6, // would show up as an impossible digit
    }
}

fn stub_new_line_state(_new_line: &str, _new_raw_line: &str, _prev_state: &State, config: &Config) -> Option<State> {
    let (kind, id) = unsafe {
        let p = config as *const Config;
        (addr_of!((*p).max_syntax_length).read(), addr_of!((*p).diff_stat_align_width).read())
    };
    let dt = DiffType::Combined(MergeParents::Number(id), InMergeConflict::No);
    match kind {
        0 => Some(State::HunkMinus(dt, None)),
        1 => Some(State::HunkPlus(dt, None)),
        2 => Some(State::HunkZero(dt, None)),
        _ => None,
    }
}

fn stub_prepare(_line: &str, _prefix_length: usize, _config: &Config) -> String {
    String::new()
}

// the unrecognised-line arm writes `tabs::expand(raw_line)` straight into the output buffer
fn stub_expand(_line: &str, tab_cfg: &tabs::TabCfg) -> String {
    unsafe {
        // `tab_cfg` is the `tab_cfg` field of the harness's Config: recover the Config
        let c = (tab_cfg as *const tabs::TabCfg as *const u8).sub(std::mem::offset_of!(Config, tab_cfg)) as *const Config;
        let id = addr_of!((*c).diff_stat_align_width).read();
        log_push(&*c, id);
    }
    String::new()
}

fn stub_is_word_diff() -> bool {
    false
}

fn stub_emit<'p>(_p: &mut Painter<'p>) -> std::io::Result<()>
where
    'p: 'p, // makes 'p early-bound, like the impl's lifetime parameter of the original method
{
    Ok(())
}

fn stub_paint_zero_line<'p>(p: &mut Painter<'p>, _line: &str, state: State)
where
    'p: 'p,
{
    unsafe { log_push(p.config, id_of(&state)) };
    std::mem::forget(state);
}

// only reachable when the previous line was a hunk header; the harness starts inside the hunk
fn stub_emit_hunk_header_line<'a>(_sm: &mut StateMachine<'a>, _parsed: &crate::handlers::hunk_header::ParsedHunkHeader, _line: &str, _raw_line: &str) -> std::io::Result<bool>
where
    'a: 'a,
{
    Ok(true)
}

// `State::clone` (derived) for the states that occur inside a hunk in this harness: the hunk
// line kinds without a raw line. Exactly what the derived impl does for these variants; any other
// variant is a harness error. The derived impl also carries the String / Vec cloning code of the
// header, grep, blame and merge variants, which multiplies symbolic execution time by orders of
// magnitude although it is never executed here.
fn stub_state_clone(s: &State) -> State {
    fn dt(d: &DiffType) -> DiffType {
        match d {
            DiffType::Unified => DiffType::Unified,
            DiffType::Combined(MergeParents::Number(n), InMergeConflict::No) => DiffType::Combined(MergeParents::Number(*n), InMergeConflict::No),
            _ => {
                assert!(false, "harness: unexpected diff type");
                DiffType::Unified
            }
        }
    }
    match s {
        State::HunkMinus(d, None) => State::HunkMinus(dt(d), None),
        State::HunkPlus(d, None) => State::HunkPlus(dt(d), None),
        State::HunkZero(d, None) => State::HunkZero(dt(d), None),
        _ => {
            assert!(false, "harness: unexpected state");
            State::Unknown
        }
    }
}

const MAXBUF: usize = 3;

fn stub_paint_minus_and_plus_lines(
    lines: crate::minusplus::MinusPlus<&Vec<(String, State)>>,
    _line_numbers_data: &mut Option<crate::features::line_numbers::LineNumbersData>,
    _highlighter: &mut Option<syntect::easy::HighlightLines>,
    _output_buffer: &mut String,
    config: &Config,
) {
    use crate::minusplus::MinusPlusIndex::{Minus, Plus};
    // the painter shows the removed lines of a sub-hunk, then its added lines
    let mut i = 0;
    while i < MAXBUF {
        if i < lines[Minus].len() {
            unsafe { log_push(config, id_of(&lines[Minus][i].1)) };
        }
        i += 1;
    }
    let mut i = 0;
    while i < MAXBUF {
        if i < lines[Plus].len() {
            unsafe { log_push(config, id_of(&lines[Plus][i].1)) };
        }
        i += 1;
    }
}

// One step of the buffering discipline from a representative buffer state: M removed lines and P
// added lines are already buffered (ids 0..M, M..M+P, in input order; PREV is the kind of the
// previous line: 0 unchanged / unrecognised, 1 removed, 2 added), then ONE more hunk line of
// symbolic kind arrives, then the hunk ends. Every line must reach the output exactly once, in
// input order. The reachable buffer states are: nothing buffered after an unchanged line; only
// removed lines after a removed line; at least one added line after an added line - one harness
// per small instance. (K lines of symbolic kinds in one harness: one line finishes in 157 s, two
// run out of 24 GB - the buffers then have symbolic lengths.)
fn step<const M: usize, const P: usize, const PREV: u8>() {
    let mut cfg_mem = MaybeUninit::<Config>::uninit();
    let cp = cfg_mem.as_mut_ptr();
    let buf_size: usize = kani::any();
    kani::assume(buf_size <= 2 || buf_size == 32); // 32 = the default; small values force early flushes
    unsafe {
        addr_of_mut!((*cp).line_buffer_size).write(buf_size);
        addr_of_mut!((*cp).max_line_length).write(0);
        addr_of_mut!((*cp).max_syntax_length).write(0);
        addr_of_mut!((*cp).diff_stat_align_width).write(0);
    }
    let config: &Config = unsafe { &*cp };
    let mut sm_mem = MaybeUninit::<StateMachine>::uninit();
    let sp = sm_mem.as_mut_ptr();
    let dt = |id: usize| DiffType::Combined(MergeParents::Number(id), InMergeConflict::No);
    let mut minus: Vec<(String, State)> = Vec::with_capacity(MAXBUF + 1);
    let mut plus: Vec<(String, State)> = Vec::with_capacity(MAXBUF + 1);
    for i in 0..M {
        minus.push((String::new(), State::HunkMinus(dt(i), None)));
    }
    for i in 0..P {
        plus.push((String::new(), State::HunkPlus(dt(M + i), None)));
    }
    let prev = match PREV {
        0 => State::HunkZero(DiffType::Unified, None),
        1 => State::HunkMinus(dt(M - 1), None),
        _ => State::HunkPlus(dt(M + P - 1), None),
    };
    unsafe {
        addr_of_mut!((*sp).line).write(String::new());
        addr_of_mut!((*sp).raw_line).write(String::new());
        addr_of_mut!((*sp).state).write(prev);
        addr_of_mut!((*sp).config).write(config);
        addr_of_mut!((*sp).minus_line_counter).write(AmbiguousDiffMinusCounter::not_needed());
        addr_of_mut!((*sp).painter.minus_lines).write(minus);
        addr_of_mut!((*sp).painter.plus_lines).write(plus);
        addr_of_mut!((*sp).painter.output_buffer).write(String::new());
        addr_of_mut!((*sp).painter.config).write(config);
    }
    let sm: &mut StateMachine = unsafe { &mut *sp };
    let kind: usize = kani::any();
    kani::assume(kind <= 3);
    unsafe {
        addr_of_mut!((*cp).max_syntax_length).write(kind);
        addr_of_mut!((*cp).diff_stat_align_width).write(M + P);
    }
    let handled = sm.handle_hunk_line();
    assert!(matches!(handled, Ok(true)), "inside a hunk every line is claimed by the hunk handler");
    // what the state machine does when the hunk ends (next header, end of input)
    sm.painter.paint_buffered_minus_and_plus_lines();
    let mut expected = 0usize;
    let mut k = 0;
    while k <= M + P {
        expected = expected * 8 + (k + 1);
        k += 1;
    }
    let log = unsafe { addr_of!((*cp).max_line_length).read() };
    assert!(log == expected, "every hunk line reaches the output exactly once, in input order");
    assert!(sm.painter.minus_lines.is_empty() && sm.painter.plus_lines.is_empty(), "nothing is left in the buffers after the flush");
    kani::cover!(kind == 0, "a removed line arrives");
    kani::cover!(kind == 1, "an added line arrives");
    kani::cover!(kind == 2, "an unchanged line arrives");
    kani::cover!(kind == 3, "an unrecognised line arrives");
    kani::cover!(buf_size == 0, "the buffers are flushed before every line");
    kani::cover!(true, "end of harness reached");
}

macro_rules! step_harness {
    ($name:ident, $m:expr, $p:expr, $prev:expr) => {
        #[kani::proof]
        #[kani::unwind(6)]
        #[kani::stub(new_line_state, stub_new_line_state)]
        #[kani::stub(crate::paint::prepare, stub_prepare)]
        #[kani::stub(crate::utils::tabs::expand, stub_expand)]
        #[kani::stub(is_word_diff, stub_is_word_diff)]
        #[kani::stub(crate::paint::Painter::emit, stub_emit)]
        #[kani::stub(<crate::delta::State as std::clone::Clone>::clone, stub_state_clone)]
        #[kani::stub(crate::delta::StateMachine::emit_hunk_header_line, stub_emit_hunk_header_line)]
        #[kani::stub(crate::paint::Painter::paint_zero_line, stub_paint_zero_line)]
        #[kani::stub(crate::paint::paint_minus_and_plus_lines, stub_paint_minus_and_plus_lines)]
        fn $name() {
            step::<$m, $p, $prev>();
        }
    };
}

step_harness!(c01_buffer_step_0_0_zero, 0, 0, 0);
step_harness!(c01_buffer_step_1_0_minus, 1, 0, 1);
step_harness!(c01_buffer_step_2_0_minus, 2, 0, 1);
step_harness!(c01_buffer_step_0_1_plus, 0, 1, 2);
step_harness!(c01_buffer_step_1_1_plus, 1, 1, 2);
step_harness!(c01_buffer_step_2_1_plus, 2, 1, 2);
step_harness!(c01_buffer_step_1_2_plus, 1, 2, 2);

// ------------------------------------------------------------------------------------------------
// Classification of a hunk line (`new_line_state`): which lines are removed / added / unchanged /
// not hunk lines at all, in unified and in combined (merge) diffs; which list of "default" styles
// the raw-line decision is keyed on (C08); and that no line content makes it panic (C03).
mod classify {
    use super::super::*;
    use std::mem::MaybeUninit;
    use std::ptr::{addr_of, addr_of_mut};

    fn stub_is_word_diff() -> bool {
        false
    }
    fn stub_delta_unreachable(_message: &str) -> ! {
        panic!("delta_unreachable reached")
    }
    fn stub_format(_args: std::fmt::Arguments<'_>) -> String {
        String::new()
    }
    // monitor: which style list is the raw-line decision keyed on?
    //   1 = empty (unchanged lines), 2 = git's minus defaults, 3 = git's plus defaults, 9 = other
    fn stub_maybe_raw_line(_raw_line: &str, _state_style_is_raw: bool, n_parents: usize, non_raw_styles: &[style::Style], config: &Config) -> Option<String> {
        let kind = if non_raw_styles.is_empty() {
            1
        } else if non_raw_styles.len() == 2 && non_raw_styles[0].ansi_term_style.foreground == Some(ansi_term::Color::Red) {
            2
        } else if non_raw_styles.len() == 2 && non_raw_styles[0].ansi_term_style.foreground == Some(ansi_term::Color::Green) {
            3
        } else {
            9
        };
        unsafe {
            let p = config as *const Config as *mut Config;
            addr_of_mut!((*p).max_line_length).write(kind);
            addr_of_mut!((*p).max_syntax_length).write(n_parents);
        }
        None
    }

    fn check<const L: usize>() {
        let mut cfg_mem = MaybeUninit::<Config>::uninit();
        let cp = cfg_mem.as_mut_ptr();
        unsafe {
            addr_of_mut!((*cp).minus_style).write(style::Style::new());
            addr_of_mut!((*cp).zero_style).write(style::Style::new());
            addr_of_mut!((*cp).plus_style).write(style::Style::new());
            addr_of_mut!((*cp).git_minus_style).write(style::Style::new());
            addr_of_mut!((*cp).git_plus_style).write(style::Style::new());
            addr_of_mut!((*cp).max_line_length).write(0);
            addr_of_mut!((*cp).max_syntax_length).write(0);
        }
        let config: &Config = unsafe { &*cp };
        let b: [u8; L] = kani::any();
        let line = match std::str::from_utf8(&b) {
            Ok(s) => s,
            Err(_) => return,
        };
        let n: usize = kani::any(); // 0 = unified, otherwise number of merge parents
        kani::assume(n <= L + 1);
        let conflict: bool = kani::any();
        let imc = if conflict { InMergeConflict::Yes } else { InMergeConflict::No };
        let prev = if n == 0 { State::HunkZero(DiffType::Unified, None) } else { State::HunkZero(DiffType::Combined(MergeParents::Number(n), imc), None) };
        let got = new_line_state(line, line, &prev, config);
        let (list_kind, list_parents) = unsafe { (addr_of!((*cp).max_line_length).read(), addr_of!((*cp).max_syntax_length).read()) };
        // ---- reference model over the bytes: 0 none, 1 minus, 2 zero, 3 plus
        let k = if n == 0 { 1 } else if n < L { n } else { L };
        // git never mixes '-' and '+' in one marker prefix (a line either is in the result or is
        // not); for such input the first marker decides
        let mut first_marker = 0u8;
        let mut all_space = true;
        for i in 0..L {
            if i < k {
                if first_marker == 0 && (b[i] == b'-' || b[i] == b'+') {
                    first_marker = b[i];
                }
                if b[i] != b' ' {
                    all_space = false;
                }
            }
        }
        // a marker column holding part of a multi-byte character: not a hunk line
        let boundary = k >= L || (b[k] as i8) >= -0x40;
        let want = if !boundary {
            0
        } else if n == 0 {
            if b[0] == b'-' {
                1
            } else if b[0] == b' ' {
                2
            } else if b[0] == b'+' {
                3
            } else {
                0
            }
        } else if first_marker == b'-' {
            1
        } else if first_marker == b'+' {
            3
        } else if all_space {
            2
        } else {
            0
        };
        let (tag, dt) = match &got {
            None => (0, None),
            Some(State::HunkMinus(d, r)) => {
                assert!(r.is_none(), "harness: raw line comes from the stub");
                (1, Some(d))
            }
            Some(State::HunkZero(d, r)) => {
                assert!(r.is_none(), "harness: raw line comes from the stub");
                (2, Some(d))
            }
            Some(State::HunkPlus(d, r)) => {
                assert!(r.is_none(), "harness: raw line comes from the stub");
                (3, Some(d))
            }
            Some(_) => (9, None),
        };
        assert!(tag == want, "hunk line classified by its marker column(s): first marker '-' removed, '+' added, all blank unchanged, anything else is not a hunk line");
        if tag != 0 {
            // the raw-line decision is keyed on the kind of the line, never on where the marker sits
            assert!(list_kind == if tag == 1 { 2 } else if tag == 2 { 1 } else { 3 }, "raw-line decision uses the default styles of the line's own kind");
            assert!(list_parents == if n == 0 { 1 } else { n }, "marker width handed to the raw-line code");
            match dt {
                Some(DiffType::Unified) => assert!(n == 0, "unified stays unified"),
                Some(DiffType::Combined(MergeParents::Prefix(p), c)) => {
                    assert!(n > 0 && p.len() == k, "combined: the marker columns are kept as the prefix");
                    assert!((*c == InMergeConflict::Yes) == conflict, "merge-conflict flag carried over");
                    for i in 0..L {
                        if i < k {
                            assert!(p.as_bytes()[i] == b[i], "prefix bytes");
                        }
                    }
                }
                _ => assert!(false, "unexpected diff type in result"),
            }
        }
        kani::cover!(tag == 1 && n >= 2 && b[0] == b' ', "removed relative to the second parent only");
        kani::cover!(tag == 0 && n >= 1, "not a hunk line in a combined diff");
        kani::cover!(b[0] >= 0x80, "line starts with a multi-byte character");
        kani::cover!(n > L, "more parents than bytes");
        kani::cover!(true, "end of harness reached");
        std::mem::forget(got);
        std::mem::forget(prev);
    }

    macro_rules! h {
        ($name:ident, $l:expr, $unwind:expr) => {
            #[kani::proof]
            #[kani::unwind($unwind)]
            #[kani::stub(is_word_diff, stub_is_word_diff)]
            #[kani::stub(crate::config::delta_unreachable, stub_delta_unreachable)]
            #[kani::stub(std::fmt::format, stub_format)]
            #[kani::stub(maybe_raw_line, stub_maybe_raw_line)]
            fn $name() {
                check::<$l>();
            }
        };
    }
    h!(c01_classify_2, 2, 6);
    h!(c01_classify_3, 3, 7);
    h!(c01_classify_4, 4, 8);
}
