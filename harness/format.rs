// Kani harnesses for src/format.rs (injected as `mod verif_kani`).
// Property C05: the line number that is printed is the number itself - `pad` decides from
// `log10_plus_1` whether to shift a centred number and then drops the last character, so a wrong
// digit count silently cuts a digit off the displayed line number.
use super::*;

const POW10: [usize; 20] = [
    1,
    10,
    100,
    1_000,
    10_000,
    100_000,
    1_000_000,
    10_000_000,
    100_000_000,
    1_000_000_000,
    10_000_000_000,
    100_000_000_000,
    1_000_000_000_000,
    10_000_000_000_000,
    100_000_000_000_000,
    1_000_000_000_000_000,
    10_000_000_000_000_000,
    100_000_000_000_000_000,
    1_000_000_000_000_000_000,
    10_000_000_000_000_000_000,
];

fn model_digits(n: usize) -> usize {
    let mut d = 1;
    let mut k = 1;
    while k < 20 {
        if n >= POW10[k] {
            d = k + 1;
        }
        k += 1;
    }
    d
}

/// `log10_plus_1(n)` is the number of decimal digits of n, for every usize.
#[kani::proof]
#[kani::unwind(22)]
fn c05_log10_plus_1() {
    let n: usize = kani::any();
    let d = log10_plus_1(n);
    assert!(d == model_digits(n), "digit count of a line number");
    kani::cover!(d == 1 && n == 0, "zero has one digit");
    kani::cover!(d == 8, "eight digits");
    kani::cover!(d == 20, "twenty digits");
    kani::cover!(n == 9_999 || n == 10_000, "around the loop's 4-digit step");
    kani::cover!(true, "end of harness reached");
}

/// The centre-right shift is requested exactly when the number is narrower than the field and
/// the paddings on both sides cannot be equal - never when the number fills the field (then the
/// "trailing blank" that `pad` removes would be a digit).
#[kani::proof]
#[kani::unwind(22)]
fn c05_center_right_space() {
    let n: usize = kani::any();
    let width: usize = kani::any();
    let a: u8 = kani::any();
    kani::assume(a < 3);
    let alignment = match a {
        0 => Align::Left,
        1 => Align::Center,
        _ => Align::Right,
    };
    let s = n.center_right_space(alignment, width);
    let d = model_digits(n);
    let expect_shift = a == 1 && width > d && (width % 2 != d % 2);
    assert!(s.len() <= 1, "at most one blank");
    assert!((s.len() == 1) == expect_shift, "shift exactly for centred, narrower numbers with odd slack");
    if s.len() == 1 {
        assert!(s.as_bytes()[0] == b' ', "the shift is a blank");
        assert!(d < width, "a shifted number never fills its field, so removing the last character removes a blank");
    }
    kani::cover!(expect_shift && d == 8, "eight-digit number shifted");
    kani::cover!(a == 1 && width == d, "number fills the field");
    kani::cover!(true, "end of harness reached");
}
