// Kani harnesses for src/utils/round_char_boundary.rs (injected as `mod verif_kani`).
// Property C03: truncation of an over-long line at `floor_char_boundary(max_line_length)` in
// `ingest_line_utf8` can never slice inside a character (contains `unwrap_unchecked`).
use super::*;

fn check<const L: usize>() {
    let b: [u8; L] = kani::any();
    if let Ok(s) = std::str::from_utf8(&b) {
        let i: usize = kani::any();
        let f = floor_char_boundary(s, i);
        let lim = if i < L { i } else { L };
        assert!(f <= lim, "never beyond the requested index or the end");
        assert!(s.is_char_boundary(f), "result is a char boundary, so line[..f] cannot panic");
        assert!(lim - f < 4, "at most 3 bytes of a split character are dropped");
        if s.is_char_boundary(lim) {
            assert!(f == lim, "an index already on a boundary is kept");
        }
        kani::cover!(lim - f == 3, "index inside a 4-byte character");
        kani::cover!(i > L, "index beyond the end");
        kani::cover!(f == 0 && i > 0 && i < L, "rounded down to the start");
    }
    kani::cover!(true, "end of harness reached");
}

#[kani::proof]
#[kani::unwind(8)]
fn c03_floor_char_boundary_5() {
    check::<5>();
}

#[kani::proof]
#[kani::unwind(11)]
fn c03_floor_char_boundary_8() {
    check::<8>();
}

#[kani::proof]
#[kani::unwind(13)]
fn c03_floor_char_boundary_10() {
    check::<10>();
}
