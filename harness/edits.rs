// Kani harnesses for src/edits.rs (injected as `mod verif_kani`).
// Property C06: pairing honours the configured maximum distance - "with it set to 0 only lines
// that differ in nothing but whitespace are paired" rests on the normalised distance being 0
// exactly when no non-whitespace token differs; and on the bookkeeping that tells the painter
// which lines have a partner.
use super::*;
use crate::minusplus::MinusPlusIndex::{Minus, Plus};

/// `compute_distance` as called by `annotate`: numerator and denominator are sums of token
/// widths (usize converted to f64), numerator <= denominator.
#[kani::proof]
fn c06_compute_distance() {
    let (n, d): (usize, usize) = (kani::any(), kani::any());
    kani::assume(d <= 128 && n <= d);
    let r = compute_distance(n as f64, d as f64);
    assert!(r >= 0.0 && r <= 1.0, "normalised distance lies in [0, 1]");
    assert!((r == 0.0) == (n == 0), "distance is 0 exactly when no changed token was counted");
    assert!((r == 1.0) == (n == d && d > 0), "distance is 1 exactly when everything changed");
    if d > 0 {
        assert!(r == n as f64 / d as f64, "distance is the plain ratio");
    }
    kani::cover!(n == 1 && d > 100, "one small change in a long line");
    kani::cover!(d == 0, "empty lines");
    kani::cover!(true, "end of harness reached");
}

/// The endpoint facts for widths up to 2^32 columns (without the comparison against a second
/// division, which is what makes the query above expensive).
#[kani::proof]
fn c06_compute_distance_wide() {
    let (n, d): (usize, usize) = (kani::any(), kani::any());
    kani::assume(d <= 1 << 32 && n <= d);
    let r = compute_distance(n as f64, d as f64);
    assert!(r >= 0.0 && r <= 1.0, "normalised distance lies in [0, 1]");
    assert!((r == 0.0) == (n == 0), "distance is 0 exactly when no changed token was counted");
    assert!((r == 1.0) == (n == d && d > 0), "distance is 1 exactly when everything changed");
    kani::cover!(n == 1 && d == 1 << 32, "one column out of 2^32");
    kani::cover!(true, "end of harness reached");
}

/// Monotonicity used by the threshold test `distance <= max_line_distance`: more changed width
/// out of the same total never gives a smaller distance.
#[kani::proof]
fn c06_compute_distance_monotone() {
    let (n1, n2, d): (u32, u32, u32) = (kani::any(), kani::any(), kani::any());
    kani::assume(d <= 256 && n1 <= n2 && n2 <= d && d > 0);
    let r1 = compute_distance(n1 as f64, d as f64);
    let r2 = compute_distance(n2 as f64, d as f64);
    assert!(r1 <= r2, "distance is monotone in the changed width");
    if n1 < n2 {
        assert!(r1 < r2, "and strictly so");
    }
    kani::cover!(n1 + 1 == n2, "adjacent numerators");
    kani::cover!(true, "end of harness reached");
}

/// `make_lines_have_homolog`: from the line alignment of a subhunk, the i-th removed (added)
/// line is marked as paired exactly when its alignment entry has both sides.
fn homolog<const K: usize>() {
    let mut v: Vec<(Option<usize>, Option<usize>)> = Vec::with_capacity(K);
    let mut kind = [0u8; K]; // 0 = minus only, 1 = plus only, 2 = pair
    for i in 0..K {
        let k: u8 = kani::any();
        kani::assume(k < 3);
        kind[i] = k;
        let (a, b): (usize, usize) = (kani::any(), kani::any());
        v.push(match k {
            0 => (Some(a), None),
            1 => (None, Some(b)),
            _ => (Some(a), Some(b)),
        });
    }
    let out = make_lines_have_homolog(&v);
    let (mut nm, mut np) = (0usize, 0usize);
    for i in 0..K {
        if kind[i] != 1 {
            assert!(nm < out[Minus].len(), "one flag per removed line");
            assert!(out[Minus][nm] == (kind[i] == 2), "removed line is marked paired iff its entry is a pair");
            nm += 1;
        }
        if kind[i] != 0 {
            assert!(np < out[Plus].len(), "one flag per added line");
            assert!(out[Plus][np] == (kind[i] == 2), "added line is marked paired iff its entry is a pair");
            np += 1;
        }
    }
    assert!(out[Minus].len() == nm && out[Plus].len() == np, "no extra flags");
    kani::cover!(nm == K && np == K, "all paired");
    kani::cover!(K < 3 || (nm > 0 && np > 0 && nm + np < 2 * K), "mixed block");
    kani::cover!(true, "end of harness reached");
    std::mem::forget(out);
    std::mem::forget(v);
}

#[kani::proof]
#[kani::unwind(6)]
fn c06_lines_have_homolog_3() {
    homolog::<3>();
}

// ------------------------------------------------------------------------------------------------
// Greedy pairing of removed with added lines (`infer_edits`), with the text-level parts cut away:
// `tokenize` (regex) returns no tokens and `annotate` returns a symbolic normalised distance per
// (removed line, added line) and no annotations. What is executed is the real pairing loop, its
// threshold test and the construction of the line alignment.
mod pairing {
    use super::super::*;
    use std::mem::MaybeUninit;

    const MINUS: [&str; 3] = ["", "x", "xx"]; // line i has length i (the stub identifies lines by length)
    const PLUS: [&str; 3] = ["", "y", "yy"];
    static mut DIST: [[f64; 3]; 3] = [[0.0; 3]; 3];

    fn stub_tokenize<'a>(_line: &'a str, _regex: &Regex) -> Vec<&'a str> {
        Vec::new()
    }

    #[allow(clippy::type_complexity)]
    fn stub_annotate<'a, Annotation>(
        alignment: align::Alignment<'a>,
        _noop_deletion: Annotation,
        _deletion: Annotation,
        _noop_insertion: Annotation,
        _insertion: Annotation,
        minus_line: &'a str,
        plus_line: &'a str,
    ) -> (Vec<(Annotation, &'a str)>, Vec<(Annotation, &'a str)>, f64)
    where
        Annotation: Copy + PartialEq + std::fmt::Debug,
    {
        std::mem::forget(alignment);
        let d = unsafe { DIST[minus_line.len()][plus_line.len()] };
        (Vec::new(), Vec::new(), d)
    }

    // the tail of infer_edits splits trailing whitespace off unpaired added lines with
    // str::trim_end (unicode whitespace searchers: minutes of symbolic execution); the lines of
    // this harness have no trailing whitespace
    fn stub_trailing(_line: &str) -> Option<&str> {
        None
    }

    fn any_distance() -> f64 {
        // a distance is a ratio in [0, 1]; a few representative values keep the query small
        let k: u8 = kani::any();
        kani::assume(k < 5);
        match k {
            0 => 0.0,
            1 => 0.25,
            2 => 0.5,
            3 => 0.75,
            _ => 1.0,
        }
    }

    fn check<const M: usize, const N: usize>() {
        let regex_mem = MaybeUninit::<Regex>::uninit();
        let regex: &Regex = unsafe { &*regex_mem.as_ptr() }; // never dereferenced: tokenize is stubbed
        let mut dist = [[0.0f64; 3]; 3];
        for i in 0..M {
            for j in 0..N {
                dist[i][j] = any_distance();
            }
        }
        unsafe {
            DIST = dist;
        }
        let max_d = any_distance();
        let naive_d = any_distance();
        let mut minus: Vec<&str> = Vec::with_capacity(M);
        let mut plus: Vec<&str> = Vec::with_capacity(N);
        let mut nd: Vec<u8> = Vec::with_capacity(M);
        let mut ni: Vec<u8> = Vec::with_capacity(N);
        for i in 0..M {
            minus.push(MINUS[i]);
            nd.push(0);
        }
        for j in 0..N {
            plus.push(PLUS[j]);
            ni.push(1);
        }
        let (am, ap, al) = infer_edits(minus, plus, nd, 2u8, ni, 3u8, regex, max_d, naive_d);
        let n = al.len();
        let big = if M > N { M } else { N };
        assert!(n >= big && n <= M + N, "number of rows between max(m,n) and m+n");
        assert!(am.len() == M && ap.len() == N, "one annotated line per input line");
        // walk the alignment
        let (mut mi, mut pj, mut pairs) = (0usize, 0usize, 0usize);
        let mut k = 0;
        while k < M + N {
            if k < n {
                match al[k] {
                    (Some(a), Some(b)) => {
                        assert!(a == mi && b == pj, "pairs never cross and no line is skipped or repeated");
                        let d = dist[a][b];
                        assert!(d <= max_d || (M == N && d <= naive_d), "a pair is only formed within the configured maximum distance");
                        mi += 1;
                        pj += 1;
                        pairs += 1;
                    }
                    (Some(a), None) => {
                        assert!(a == mi, "removed lines appear in order, once");
                        mi += 1;
                    }
                    (None, Some(b)) => {
                        assert!(b == pj, "added lines appear in order, once");
                        pj += 1;
                    }
                    (None, None) => assert!(false, "empty alignment entry"),
                }
            }
            k += 1;
        }
        assert!(mi == M && pj == N, "every removed and every added line appears exactly once");
        // with the maximum distance at 1 every candidate is acceptable: i-th with i-th
        if max_d >= 1.0 {
            let small = if M < N { M } else { N };
            assert!(pairs == small, "maximum distance 1: the i-th removed line is paired with the i-th added line");
            let mut k = 0;
            while k < small {
                assert!(al[k] == (Some(k), Some(k)), "maximum distance 1: pairs are (i, i)");
                k += 1;
            }
        }
        // with the maximum at 0 (and the naive threshold at 0) only distance-0 lines are paired
        if max_d == 0.0 && naive_d == 0.0 {
            let mut k = 0;
            while k < M + N {
                if k < n {
                    if let (Some(a), Some(b)) = al[k] {
                        assert!(dist[a][b] == 0.0, "maximum distance 0: only lines at distance 0 are paired");
                    }
                }
                k += 1;
            }
        }
        kani::cover!(pairs == 0 && M > 0 && N > 0, "nothing paired");
        kani::cover!(pairs >= 1 && n > big, "a pair after an unpaired line");
        kani::cover!(max_d >= 1.0, "maximum distance 1");
        kani::cover!(true, "end of harness reached");
        std::mem::forget(am);
        std::mem::forget(ap);
        std::mem::forget(al);
    }

    #[kani::proof]
    #[kani::unwind(6)]
    #[kani::stub(tokenize, stub_tokenize)]
    #[kani::stub(annotate, stub_annotate)]
    #[kani::stub(get_contents_before_trailing_whitespace, stub_trailing)]
    fn c06_pairing_2_2() {
        check::<2, 2>();
    }

    #[kani::proof]
    #[kani::unwind(6)]
    #[kani::stub(tokenize, stub_tokenize)]
    #[kani::stub(annotate, stub_annotate)]
    #[kani::stub(get_contents_before_trailing_whitespace, stub_trailing)]
    fn c06_pairing_1_2() {
        check::<1, 2>();
    }
}
