// Kani harnesses for src/edits.rs (injected as `mod verif_kani`).
// Property C06: pairing honours the configured maximum distance - "with it set to 0 only lines
// that differ in nothing but whitespace are paired" rests on the normalised distance being 0
// exactly when no non-whitespace token differs; and on the bookkeeping that tells the painter
// which lines have a partner.
use super::*;
use crate::minusplus::MinusPlusIndex::{Minus, Plus};

/// `compute_distance` as called by `annotate`: numerator and denominator are sums of token
/// widths (usize converted to f64), numerator <= denominator.
#[kani::proof]
fn c06_compute_distance() {
    let (n, d): (usize, usize) = (kani::any(), kani::any());
    kani::assume(d <= 128 && n <= d);
    let r = compute_distance(n as f64, d as f64);
    assert!(r >= 0.0 && r <= 1.0, "normalised distance lies in [0, 1]");
    assert!((r == 0.0) == (n == 0), "distance is 0 exactly when no changed token was counted");
    assert!((r == 1.0) == (n == d && d > 0), "distance is 1 exactly when everything changed");
    if d > 0 {
        assert!(r == n as f64 / d as f64, "distance is the plain ratio");
    }
    kani::cover!(n == 1 && d > 100, "one small change in a long line");
    kani::cover!(d == 0, "empty lines");
    kani::cover!(true, "end of harness reached");
}

/// Monotonicity used by the threshold test `distance <= max_line_distance`: more changed width
/// out of the same total never gives a smaller distance.
#[kani::proof]
fn c06_compute_distance_monotone() {
    let (n1, n2, d): (u32, u32, u32) = (kani::any(), kani::any(), kani::any());
    kani::assume(d <= 256 && n1 <= n2 && n2 <= d && d > 0);
    let r1 = compute_distance(n1 as f64, d as f64);
    let r2 = compute_distance(n2 as f64, d as f64);
    assert!(r1 <= r2, "distance is monotone in the changed width");
    if n1 < n2 {
        assert!(r1 < r2, "and strictly so");
    }
    kani::cover!(n1 + 1 == n2, "adjacent numerators");
    kani::cover!(true, "end of harness reached");
}

/// `make_lines_have_homolog`: from the line alignment of a subhunk, the i-th removed (added)
/// line is marked as paired exactly when its alignment entry has both sides.
fn homolog<const K: usize>() {
    let mut v: Vec<(Option<usize>, Option<usize>)> = Vec::with_capacity(K);
    let mut kind = [0u8; K]; // 0 = minus only, 1 = plus only, 2 = pair
    for i in 0..K {
        let k: u8 = kani::any();
        kani::assume(k < 3);
        kind[i] = k;
        let (a, b): (usize, usize) = (kani::any(), kani::any());
        v.push(match k {
            0 => (Some(a), None),
            1 => (None, Some(b)),
            _ => (Some(a), Some(b)),
        });
    }
    let out = make_lines_have_homolog(&v);
    let (mut nm, mut np) = (0usize, 0usize);
    for i in 0..K {
        if kind[i] != 1 {
            assert!(nm < out[Minus].len(), "one flag per removed line");
            assert!(out[Minus][nm] == (kind[i] == 2), "removed line is marked paired iff its entry is a pair");
            nm += 1;
        }
        if kind[i] != 0 {
            assert!(np < out[Plus].len(), "one flag per added line");
            assert!(out[Plus][np] == (kind[i] == 2), "added line is marked paired iff its entry is a pair");
            np += 1;
        }
    }
    assert!(out[Minus].len() == nm && out[Plus].len() == np, "no extra flags");
    kani::cover!(nm == K && np == K, "all paired");
    kani::cover!(K < 3 || (nm > 0 && np > 0 && nm + np < 2 * K), "mixed block");
    kani::cover!(true, "end of harness reached");
    std::mem::forget(out);
    std::mem::forget(v);
}

#[kani::proof]
#[kani::unwind(6)]
fn c06_lines_have_homolog_3() {
    homolog::<3>();
}
