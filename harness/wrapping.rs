// Kani harnesses for src/wrapping.rs (injected as `mod verif_kani`).
// Property C03 (no overflow in the limit arithmetic), C07 (enough text is kept for the requested
// number of wrapped rows).
use super::*;

#[kani::proof]
fn c03_wrap_limits() {
    let wc = WrapConfig {
        left_symbol: String::new(),
        right_symbol: String::new(),
        right_prefix_symbol: String::new(),
        use_wrap_right_permille: 370,
        max_lines: kani::any(),
        inline_hint_syntect_style: SyntectStyle::default(),
    };
    let (mll, w): (usize, usize) = (kani::any(), kani::any());
    let r = wc.config_max_line_length(mll, w);
    let panel = w / 2;
    match wc.max_lines {
        1 => assert!(r == mll, "no wrapping: the configured maximum line length is used as is"),
        0 => assert!(r == 0, "unlimited wrapping: lines are never truncated on input"),
        n => {
            assert!(r >= mll, "wrapping never lowers the configured maximum line length");
            assert!(r >= panel.saturating_mul(n), "enough text is kept to fill the requested number of rows");
            kani::cover!(panel.checked_mul(n).is_none(), "rows x panel width exceeds usize");
            kani::cover!(r > mll, "limit raised for wrapping");
        }
    }
    kani::cover!(true, "end of harness reached");
    std::mem::forget(wc);
}
