// Kani harnesses for src/wrapping.rs (injected as `mod verif_kani`).
// Property C03 (no overflow in the limit arithmetic), C07 (enough text is kept for the requested
// number of wrapped rows).
use super::*;

#[kani::proof]
fn c03_wrap_limits() {
    let wc = WrapConfig {
        left_symbol: String::new(),
        right_symbol: String::new(),
        right_prefix_symbol: String::new(),
        use_wrap_right_permille: 370,
        max_lines: kani::any(),
        inline_hint_syntect_style: SyntectStyle::default(),
    };
    let (mll, w): (usize, usize) = (kani::any(), kani::any());
    let r = wc.config_max_line_length(mll, w);
    let panel = w / 2;
    match wc.max_lines {
        1 => assert!(r == mll, "no wrapping: the configured maximum line length is used as is"),
        0 => assert!(r == 0, "unlimited wrapping: lines are never truncated on input"),
        n => {
            assert!(r >= mll, "wrapping never lowers the configured maximum line length");
            assert!(r >= panel.saturating_mul(n), "enough text is kept to fill the requested number of rows");
            kani::cover!(panel.checked_mul(n).is_none(), "rows x panel width exceeds usize");
            kani::cover!(r > mll, "limit raised for wrapping");
        }
    }
    kani::cover!(true, "end of harness reached");
    std::mem::forget(wc);
}

// ------------------------------------------------------------------------------------------------
// Re-alignment of wrapped rows (C07: "every hunk line appears exactly once per side, in order,
// and paired lines share a row"): the real `wrap_minusplus_block` + `wrap_if_too_long` with the
// text-level `wrap_line` replaced by a stub that returns a symbolic number (1..=3) of rows per
// line - the index bookkeeping that turns a line alignment into a row alignment.
mod wrap_block {
    use super::super::*;
    use std::mem::MaybeUninit;
    use std::ptr::addr_of_mut;

    static mut ROWS: [usize; 6] = [1; 6];
    static mut CALLS: usize = 0;

    // called twice per line (syntax sections, then diff sections), lines in alignment order
    fn stub_wrap_line<'a, I, S>(_config: &'a Config, _line: I, _line_width: usize, _fill_style: &S, _inline_hint_style: &Option<S>) -> Vec<LineSections<'a, S>>
    where
        I: IntoIterator<Item = (S, &'a str)> + std::fmt::Debug,
        <I as IntoIterator>::IntoIter: DoubleEndedIterator,
        S: Copy + Default + std::fmt::Debug,
    {
        let k = unsafe {
            let k = ROWS[CALLS / 2];
            CALLS += 1;
            k
        };
        let mut v: Vec<LineSections<'a, S>> = Vec::with_capacity(3);
        v.push(Vec::new());
        if k >= 2 {
            v.push(Vec::new());
        }
        if k >= 3 {
            v.push(Vec::new());
        }
        std::mem::forget(_line);
        v
    }

    fn cfg(c: &mut MaybeUninit<Config>) -> &Config {
        let p = c.as_mut_ptr();
        let plain = Style::new();
        unsafe {
            addr_of_mut!((*p).minus_style).write(plain);
            addr_of_mut!((*p).plus_style).write(plain);
            addr_of_mut!((*p).null_syntect_style).write(SyntectStyle::default());
            addr_of_mut!((*p).inline_hint_style).write(plain);
            addr_of_mut!((*p).wrap_config).write(WrapConfig {
                left_symbol: String::new(),
                right_symbol: String::new(),
                right_prefix_symbol: String::new(),
                use_wrap_right_permille: 0,
                max_lines: 4,
                inline_hint_syntect_style: SyntectStyle::default(),
            });
            &*p
        }
    }

    fn rows() -> usize {
        let k: usize = kani::any();
        kani::assume(k >= 1 && k <= 2);
        k
    }

    // expected row alignment for one aligned pair/single, appended to `exp` (fixed-size log)
    fn expect(exp: &mut [(Option<usize>, Option<usize>); 12], n: &mut usize, l0: usize, kl: usize, r0: usize, kr: usize) {
        let big = if kl > kr { kl } else { kr };
        let mut j = 0;
        while j < 3 {
            if j < big {
                let a = if j < kl { Some(l0 + j) } else { None };
                let b = if j < kr { Some(r0 + j) } else { None };
                exp[*n] = (a, b);
                *n += 1;
            }
            j += 1;
        }
    }

    fn is_first(s: &State, left: bool) -> bool {
        if left {
            matches!(s, State::HunkMinus(DiffType::Unified, None))
        } else {
            matches!(s, State::HunkPlus(DiffType::Unified, None))
        }
    }
    fn is_cont(s: &State, left: bool) -> bool {
        if left {
            matches!(s, State::HunkMinusWrapped)
        } else {
            matches!(s, State::HunkPlusWrapped)
        }
    }

    /// Two aligned pairs, each of the four lines wrapping to 1..=3 rows.
    #[kani::proof]
    #[kani::unwind(8)]
    #[kani::stub(wrap_line, stub_wrap_line)]
    fn c07_wrap_block_two_pairs() {
        let mut mem = MaybeUninit::<Config>::uninit();
        let config = cfg(&mut mem);
        let (kl0, kr0, kl1, kr1) = (rows(), rows(), rows(), rows());
        unsafe {
            ROWS[0] = kl0;
            ROWS[1] = kr0;
            ROWS[2] = kl1;
            ROWS[3] = kr1;
            CALLS = 0;
        }
        let syntax = MinusPlus::new(vec![Vec::new(), Vec::new()], vec![Vec::new(), Vec::new()]);
        let diff = MinusPlus::new(vec![Vec::new(), Vec::new()], vec![Vec::new(), Vec::new()]);
        let alignment = [(Some(0), Some(0)), (Some(1), Some(1))];
        let line_width = MinusPlus::new(10usize, 10usize);
        let wrapinfo = MinusPlus::new(vec![true, true], vec![true, true]);
        let (new_alignment, new_states, new_syntax, new_diff) = wrap_minusplus_block(config, syntax, diff, &alignment, &line_width, &wrapinfo);

        let mut exp = [(None, None); 12];
        let mut n = 0usize;
        expect(&mut exp, &mut n, 0, kl0, 0, kr0);
        expect(&mut exp, &mut n, kl0, kl1, kr0, kr1);
        assert!(new_alignment.len() == n, "number of rows: max(left,right) per aligned pair");
        let mut i = 0;
        while i < 6 {
            if i < n {
                assert!(new_alignment[i] == exp[i], "row alignment: fragments of paired lines share rows, the longer side continues alone, indices ascend without gaps or repeats");
            }
            i += 1;
        }
        assert!(new_syntax[Left].len() == kl0 + kl1 && new_syntax[Right].len() == kr0 + kr1, "every fragment of every line is kept (syntax sections)");
        assert!(new_diff[Left].len() == kl0 + kl1 && new_diff[Right].len() == kr0 + kr1, "every fragment of every line is kept (diff sections)");
        assert!(new_states[Left].len() == kl0 + kl1 && new_states[Right].len() == kr0 + kr1, "one state per row");
        let mut i = 0;
        while i < 6 {
            if i < kl0 + kl1 {
                let first = i == 0 || i == kl0;
                assert!(if first { is_first(&new_states[Left][i], true) } else { is_cont(&new_states[Left][i], true) }, "left: first row of a line is a minus line, the others are continuation rows");
            }
            if i < kr0 + kr1 {
                let first = i == 0 || i == kr0;
                assert!(if first { is_first(&new_states[Right][i], false) } else { is_cont(&new_states[Right][i], false) }, "right: first row of a line is a plus line, the others are continuation rows");
            }
            i += 1;
        }
        kani::cover!(kl0 == 2 && kr0 == 1 && kl1 == 1 && kr1 == 2, "uneven wrap in both pairs, opposite directions");
        kani::cover!(kl0 == 1 && kr0 == 1 && kl1 == 1 && kr1 == 1, "nothing wraps");
        kani::cover!(true, "end of harness reached");
        std::mem::forget(new_alignment);
        std::mem::forget(new_states);
        std::mem::forget(new_syntax);
        std::mem::forget(new_diff);
        std::mem::forget(wrapinfo);
    }

    /// An unpaired removed line, a pair, an unpaired added line.
    #[kani::proof]
    #[kani::unwind(8)]
    #[kani::stub(wrap_line, stub_wrap_line)]
    fn c07_wrap_block_mixed() {
        let mut mem = MaybeUninit::<Config>::uninit();
        let config = cfg(&mut mem);
        let (kl0, kl1, kr0, kr1) = (rows(), rows(), rows(), rows());
        unsafe {
            // call order: L0 | L1, R0 | R1
            ROWS[0] = kl0;
            ROWS[1] = kl1;
            ROWS[2] = kr0;
            ROWS[3] = kr1;
            CALLS = 0;
        }
        let syntax = MinusPlus::new(vec![Vec::new(), Vec::new()], vec![Vec::new(), Vec::new()]);
        let diff = MinusPlus::new(vec![Vec::new(), Vec::new()], vec![Vec::new(), Vec::new()]);
        let alignment = [(Some(0), None), (Some(1), Some(0)), (None, Some(1))];
        let line_width = MinusPlus::new(10usize, 10usize);
        let wrapinfo = MinusPlus::new(vec![true, true], vec![true, true]);
        let (new_alignment, new_states, new_syntax, new_diff) = wrap_minusplus_block(config, syntax, diff, &alignment, &line_width, &wrapinfo);
        let mut exp = [(None, None); 12];
        let mut n = 0usize;
        expect(&mut exp, &mut n, 0, kl0, 0, 0);
        expect(&mut exp, &mut n, kl0, kl1, 0, kr0);
        expect(&mut exp, &mut n, kl0 + kl1, 0, kr0, kr1);
        assert!(new_alignment.len() == n, "number of rows");
        let mut i = 0;
        while i < 9 {
            if i < n {
                assert!(new_alignment[i] == exp[i], "row alignment for unpaired and paired lines");
            }
            i += 1;
        }
        assert!(new_syntax[Left].len() == kl0 + kl1 && new_syntax[Right].len() == kr0 + kr1, "every fragment kept");
        assert!(new_diff[Left].len() == kl0 + kl1 && new_diff[Right].len() == kr0 + kr1, "every fragment kept (diff)");
        assert!(new_states[Left].len() == kl0 + kl1 && new_states[Right].len() == kr0 + kr1, "one state per row");
        kani::cover!(kl0 == 2 && kl1 == 2 && kr0 == 1 && kr1 == 2, "a particular mixed shape");
        kani::cover!(true, "end of harness reached");
        std::mem::forget(new_alignment);
        std::mem::forget(new_states);
        std::mem::forget(new_syntax);
        std::mem::forget(new_diff);
        std::mem::forget(wrapinfo);
    }
}
