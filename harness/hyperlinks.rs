// Kani harnesses for src/features/hyperlinks.rs (injected as `mod verif_kani`).
// Property C19 / C09: an OSC 8 hyperlink is opened and closed on the same line and wraps its text
// unchanged - removing the OSC 8 sequences gives back the text.
use super::*;

fn osc8<const U: usize, const T: usize>() {
    let mut url = [0u8; U];
    let mut text = [0u8; T];
    for i in 0..U {
        let c: u8 = kani::any();
        kani::assume(c >= 0x20 && c < 0x7f);
        url[i] = c;
    }
    for i in 0..T {
        let c: u8 = kani::any();
        kani::assume(c >= 0x20 && c < 0x7f);
        text[i] = c;
    }
    let us = unsafe { std::str::from_utf8_unchecked(&url) };
    let ts = unsafe { std::str::from_utf8_unchecked(&text) };
    let out = format_osc8_hyperlink(us, ts);
    let b = out.as_bytes();
    // ESC ] 8 ; ; URL ESC \ TEXT ESC ] 8 ; ; ESC \
    assert!(b.len() == 5 + U + 2 + T + 5 + 2, "nothing but the two OSC 8 sequences is added");
    assert!(b[0] == 0x1b && b[1] == b']' && b[2] == b'8' && b[3] == b';' && b[4] == b';', "the link is opened with OSC 8 ;;");
    for i in 0..U {
        assert!(b[5 + i] == url[i], "the URL is carried unchanged");
    }
    assert!(b[5 + U] == 0x1b && b[6 + U] == b'\\', "the opening sequence is terminated");
    for i in 0..T {
        assert!(b[7 + U + i] == text[i], "the wrapped text is unchanged");
    }
    let k = 7 + U + T;
    assert!(b[k] == 0x1b && b[k + 1] == b']' && b[k + 2] == b'8' && b[k + 3] == b';' && b[k + 4] == b';' && b[k + 5] == 0x1b && b[k + 6] == b'\\', "the link is closed on the same line with an empty OSC 8");
    kani::cover!(U > 0 && url[0] == b'f', "a url starting with f");
    kani::cover!(true, "end of harness reached");
    std::mem::forget(out);
}

#[kani::proof]
#[kani::unwind(9)]
fn c19_osc8_wrapper_2_2() {
    osc8::<2, 2>();
}

#[kani::proof]
#[kani::unwind(28)]
fn c19_osc8_wrapper_4_3() {
    osc8::<4, 3>();
}
