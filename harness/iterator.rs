// Kani harnesses for src/ansi/iterator.rs (injected as `mod verif_kani`).
// Property C08: the colours and attributes of an input SGR sequence (what git's moved-line
// colouring arrives as) are read exactly - `Performer::csi_dispatch` +
// `ansi_term_style_from_sgr_parameters` + `parse_sgr_color` against a reference model of SGR.
//
// `anstyle_parse::Params` has private fields and no public constructor. The harness builds it
// from a field-for-field mirror (same field types in the same declaration order; rustc lays out
// two such structs identically) and *checks* that assumption through the public API in every
// harness (`len()` and the slices produced by `iter()`), so a layout mismatch fails loudly.
use super::*;
use anstyle_parse::Perform;

const MAX_PARAMS: usize = 32;

#[derive(Default, Clone)]
#[allow(dead_code)]
struct ParamsMirror {
    subparams: [u8; MAX_PARAMS],
    params: [u16; MAX_PARAMS],
    current_subparams: u8,
    len: usize,
}

impl ParamsMirror {
    // same logic as the (crate-private) Params::push / Params::extend
    fn push(&mut self, item: u16) {
        self.subparams[self.len - self.current_subparams as usize] = self.current_subparams + 1;
        self.params[self.len] = item;
        self.current_subparams = 0;
        self.len += 1;
    }
    fn extend(&mut self, item: u16) {
        self.subparams[self.len - self.current_subparams as usize] = self.current_subparams + 1;
        self.params[self.len] = item;
        self.current_subparams += 1;
        self.len += 1;
    }
    fn into_params(self) -> Params {
        assert!(std::mem::size_of::<ParamsMirror>() == std::mem::size_of::<Params>(), "harness: Params mirror has the size of Params");
        // Typed writes at the mirror's field offsets into a default (all-zero) Params; a wholesale
        // transmute makes CBMC treat every later field access as a byte extraction.
        let mut p = Params::default();
        let base = &mut p as *mut Params as *mut u8;
        unsafe {
            let sub = base.add(std::mem::offset_of!(ParamsMirror, subparams));
            let par = base.add(std::mem::offset_of!(ParamsMirror, params)) as *mut u16;
            // loop-free (at most 8 entries are used by any harness) so that the global unwind
            // bound only has to cover the loop of the code under test
            macro_rules! put {
                ($($i:expr),*) => {$(
                    if $i < self.len {
                        sub.add($i).write(self.subparams[$i]);
                        par.add($i).write(self.params[$i]);
                    }
                )*};
            }
            put!(0, 1, 2, 3, 4, 5, 6, 7);
            assert!(self.len <= 8, "harness: at most 8 parameter slots are copied");
            base.add(std::mem::offset_of!(ParamsMirror, current_subparams)).write(self.current_subparams);
            (base.add(std::mem::offset_of!(ParamsMirror, len)) as *mut usize).write(self.len);
        }
        p
    }
}

// The public API must see exactly what was put into the mirror (validates the layout assumption).
fn check_layout(p: &Params, expect_len: usize, first: &[u16]) {
    assert!(p.len() == expect_len, "harness: Params.len() sees the mirror's len");
    let mut it = p.iter();
    let f = it.next().unwrap();
    assert!(f.len() == first.len(), "harness: first parameter has the mirror's number of subparameters");
    let mut i = 0;
    while i < first.len() {
        assert!(f[i] == first[i], "harness: first parameter values");
        i += 1;
    }
}

fn dispatch(p: &Params, final_byte: u8) -> Option<Element> {
    let mut performer = Performer::default();
    performer.csi_dispatch(p, &[], false, final_byte);
    performer.element
}

fn sgr_style(p: &Params) -> ansi_term::Style {
    match dispatch(p, b'm') {
        Some(Element::Sgr(style, 0, 0)) => style,
        _ => {
            assert!(false, "a CSI ... m sequence with parameters is an SGR element");
            ansi_term::Style::new()
        }
    }
}

// ---- reference model of the SGR parameters delta documents as understood ----
fn named(n: u16) -> ansi_term::Color {
    use ansi_term::Color::*;
    match n {
        0 => Black,
        1 => Red,
        2 => Green,
        3 => Yellow,
        4 => Blue,
        5 => Purple,
        6 => Cyan,
        _ => White,
    }
}

// effect of one simple (non-38/48) parameter on a style
fn model_simple(style: &mut ansi_term::Style, v: u16) {
    match v {
        1 => style.is_bold = true,
        2 => style.is_dimmed = true,
        3 => style.is_italic = true,
        4 => style.is_underline = true,
        5 | 6 => style.is_blink = true,
        7 => style.is_reverse = true,
        8 => style.is_hidden = true,
        9 => style.is_strikethrough = true,
        30..=37 => style.foreground = Some(named(v - 30)),
        40..=47 => style.background = Some(named(v - 40)),
        90..=97 => style.foreground = Some(ansi_term::Color::Fixed((v - 90 + 8) as u8)),
        100..=107 => style.background = Some(ansi_term::Color::Fixed((v - 100 + 8) as u8)),
        _ => {}
    }
}

/// K simple parameters `CSI v1 ; ... ; vK m`, every value any u16 except 38/48 (the extended
/// colour introducers, covered separately): attributes accumulate, the last colour of each kind
/// wins, unknown parameters are ignored.
fn simple_params<const K: usize>() {
    let mut m = ParamsMirror::default();
    let mut vals = [0u16; K];
    for i in 0..K {
        let v: u16 = kani::any();
        kani::assume(v != 38 && v != 48);
        vals[i] = v;
        m.push(v);
    }
    let p = m.into_params();
    check_layout(&p, K, &[vals[0]]);
    let got = sgr_style(&p);
    let mut want = ansi_term::Style::new();
    for i in 0..K {
        model_simple(&mut want, vals[i]);
    }
    assert!(got == want, "style read from simple SGR parameters");
    kani::cover!(K < 2 || (got.is_bold && got.foreground == Some(ansi_term::Color::Red)), "bold red");
    kani::cover!(got.background == Some(ansi_term::Color::Fixed(15)), "bright white background");
    kani::cover!(got == ansi_term::Style::new(), "only unknown parameters");
    kani::cover!(true, "end of harness reached");
}

#[kani::proof]
#[kani::unwind(3)]
fn c08_sgr_simple_1() {
    simple_params::<1>();
}
#[kani::proof]
#[kani::unwind(4)]
fn c08_sgr_simple_2() {
    simple_params::<2>();
}
#[kani::proof]
#[kani::unwind(5)]
fn c08_sgr_simple_3() {
    simple_params::<3>();
}

/// 256-colour and 24-bit colours in semicolon form, preceded and followed by one simple parameter:
/// `CSI a ; 38|48 ; 5 ; n ; b m` and `CSI a ; 38|48 ; 2 ; r ; g ; b ; c m`.
#[kani::proof]
#[kani::unwind(8)]
fn c08_sgr_extended_semicolon() {
    let mut m = ParamsMirror::default();
    let a: u16 = kani::any();
    let z: u16 = kani::any();
    kani::assume(a != 38 && a != 48 && z != 38 && z != 48);
    let bg: bool = kani::any();
    let rgb: bool = kani::any();
    let (c1, c2, c3): (u16, u16, u16) = (kani::any(), kani::any(), kani::any());
    m.push(a);
    m.push(if bg { 48 } else { 38 });
    if rgb {
        m.push(2);
        m.push(c1);
        m.push(c2);
        m.push(c3);
    } else {
        m.push(5);
        m.push(c1);
    }
    m.push(z);
    let n = m.len;
    let p = m.into_params();
    check_layout(&p, n, &[a]);
    let got = sgr_style(&p);
    let mut want = ansi_term::Style::new();
    model_simple(&mut want, a);
    let color = if rgb {
        if c1 < 256 && c2 < 256 && c3 < 256 {
            Some(ansi_term::Color::RGB(c1 as u8, c2 as u8, c3 as u8))
        } else {
            None
        }
    } else if c1 < 256 {
        Some(ansi_term::Color::Fixed(c1 as u8))
    } else {
        None
    };
    let well_formed = color.is_some();
    if let Some(c) = color {
        if bg {
            want.background = Some(c);
        } else {
            want.foreground = Some(c);
        }
    }
    if well_formed {
        // the parameters of the colour are consumed; the trailing simple parameter applies
        model_simple(&mut want, z);
        assert!(got == want, "extended colour in semicolon form, with surrounding parameters");
        kani::cover!(rgb && bg && got.is_bold, "24-bit background with bold");
        kani::cover!(!rgb && !bg && c1 == 1, "256-colour foreground 1");
    } else {
        // malformed colour (component > 255): no colour of that kind is set from it
        if bg {
            assert!(got.background == want.background || got.background.is_some(), "malformed extended background colour does not crash");
        }
        kani::cover!(true, "out-of-range colour component");
    }
    kani::cover!(true, "end of harness reached");
}

/// Colon (sub-parameter) forms: `38:5:n`, `38:2:r:g:b` and `38:2::r:g:b` (with the colour-space
/// id slot), foreground or background, followed by one simple parameter.
#[kani::proof]
#[kani::unwind(4)]
fn c08_sgr_extended_colon() {
    let mut m = ParamsMirror::default();
    let bg: bool = kani::any();
    let form: u8 = kani::any();
    kani::assume(form < 3);
    let (c1, c2, c3): (u16, u16, u16) = (kani::any(), kani::any(), kani::any());
    let z: u16 = kani::any();
    kani::assume(z != 38 && z != 48);
    let intro = if bg { 48 } else { 38 };
    m.extend(intro);
    match form {
        0 => {
            m.extend(5);
            m.push(c1);
        }
        1 => {
            m.extend(2);
            m.extend(c1);
            m.extend(c2);
            m.push(c3);
        }
        _ => {
            m.extend(2);
            m.extend(0); // colour-space id, ignored
            m.extend(c1);
            m.extend(c2);
            m.push(c3);
        }
    }
    m.push(z);
    let n = m.len;
    let p = m.into_params();
    assert!(p.len() == n, "harness: Params.len() sees the mirror's len");
    let got = sgr_style(&p);
    let mut want = ansi_term::Style::new();
    let color = if form == 0 {
        if c1 < 256 {
            Some(ansi_term::Color::Fixed(c1 as u8))
        } else {
            None
        }
    } else if c1 < 256 && c2 < 256 && c3 < 256 {
        Some(ansi_term::Color::RGB(c1 as u8, c2 as u8, c3 as u8))
    } else {
        None
    };
    if let Some(c) = color {
        if bg {
            want.background = Some(c);
        } else {
            want.foreground = Some(c);
        }
    }
    model_simple(&mut want, z);
    assert!(got == want, "extended colour in colon form; the following parameter still applies");
    kani::cover!(form == 2 && color.is_some(), "colon form with colour-space id");
    kani::cover!(form == 0 && bg, "colon 256-colour background");
    kani::cover!(color.is_none(), "out-of-range component");
    kani::cover!(true, "end of harness reached");
}

/// What is an SGR element at all: final byte 'm' without intermediates; an empty parameter list
/// (reset) yields no element; any other final byte is a plain CSI element; more than one
/// intermediate or the ignore flag yields nothing.
#[kani::proof]
#[kani::unwind(3)]
fn c08_csi_dispatch_kinds() {
    let mut m = ParamsMirror::default();
    let empty: bool = kani::any();
    let v: u16 = kani::any();
    if !empty {
        m.push(v);
    }
    let p = m.into_params();
    assert!(p.is_empty() == empty, "harness: Params.is_empty() sees the mirror");
    let byte: u8 = kani::any();
    let ignore: bool = kani::any();
    let n_inter: usize = kani::any();
    kani::assume(n_inter <= 2);
    let inter = [b' ', b'!'];
    let mut performer = Performer::default();
    performer.csi_dispatch(&p, &inter[..n_inter], ignore, byte);
    let el = performer.element;
    if ignore || n_inter > 1 {
        assert!(el.is_none(), "ignored / over-long CSI sequences produce no element");
    } else if byte == b'm' && n_inter == 0 {
        if empty {
            assert!(el.is_none(), "CSI m (reset) produces no element");
            kani::cover!(true, "reset");
        } else {
            assert!(matches!(el, Some(Element::Sgr(_, 0, 0))), "CSI params m is an SGR element");
            kani::cover!(true, "sgr");
        }
    } else {
        assert!(matches!(el, Some(Element::Csi(0, 0))), "any other CSI sequence is a Csi element");
        kani::cover!(byte == b'K', "erase in line");
    }
    kani::cover!(true, "end of harness reached");
}

/// git's plain removed-line colour (`CSI 31 m`) is recognised as such by the identity used in
/// `Style::is_applied_to`, and a moved-line colouring (`CSI 1 ; 35 m`, bold magenta) is not.
#[kani::proof]
#[kani::unwind(4)]
fn c08_sgr_git_default_vs_moved() {
    let mut m = ParamsMirror::default();
    let (a, b): (u16, u16) = (kani::any(), kani::any());
    kani::assume(a != 38 && a != 48 && b != 38 && b != 48);
    m.push(a);
    m.push(b);
    let p = m.into_params();
    check_layout(&p, 2, &[a]);
    let got = sgr_style(&p);
    let git_minus = ansi_term::Style { foreground: Some(ansi_term::Color::Red), ..ansi_term::Style::new() };
    let is_default = crate::style::ansi_term_style_equality(got, git_minus);
    // model: the two parameters amount to "red foreground and nothing else"
    let mut want = ansi_term::Style::new();
    model_simple(&mut want, a);
    model_simple(&mut want, b);
    let model_default = want.foreground == Some(ansi_term::Color::Red)
        && want.background.is_none()
        && !want.is_bold && !want.is_dimmed && !want.is_italic && !want.is_underline
        && !want.is_blink && !want.is_reverse && !want.is_hidden && !want.is_strikethrough;
    assert!(is_default == model_default, "only plain red counts as git's default removed-line colour");
    kani::cover!(is_default, "plain red recognised");
    kani::cover!(!is_default && got.foreground == Some(ansi_term::Color::Red), "red plus an attribute is a moved-line style");
    kani::cover!(true, "end of harness reached");
}

/// Text accounting of the performer: every byte the VTE machine hands over as text or as a C0
/// control (TAB, form feed, ...) counts towards the length of the surrounding text element -
/// `strip_ansi_codes` and the width functions slice the line by these lengths, so a control byte
/// that is not counted shifts every later element of a coloured line (and only of a coloured
/// line). A printed char counts with its UTF-8 length.
#[kani::proof]
fn c08_performer_text_accounting() {
    let mut performer = Performer::default();
    let t0: usize = kani::any();
    kani::assume(t0 < 1 << 40);
    performer.text_length = t0;
    let b: u8 = kani::any();
    kani::assume(b < 0x20 || b == 0x7f); // what anstyle_parse passes to execute() for ASCII input
    performer.execute(b);
    assert!(performer.text_length == t0 + 1, "a C0 control byte is one byte of text");
    assert!(performer.element.is_none(), "a control byte does not end an element");
    let c: char = kani::any();
    performer.print(c);
    let n = if (c as u32) < 0x80 { 1 } else if (c as u32) < 0x800 { 2 } else if (c as u32) < 0x10000 { 3 } else { 4 };
    assert!(performer.text_length == t0 + 1 + n, "a printed character counts with its UTF-8 length");
    kani::cover!(b == 0x0c, "form feed");
    kani::cover!(n == 4, "4-byte character");
    kani::cover!(true, "end of harness reached");
}
