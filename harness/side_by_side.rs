// Kani harnesses for src/features/side_by_side.rs (injected as `mod verif_kani`).
// Property C07 (panel geometry, available text width), C03 (no overflow / underflow).
use super::*;
use crate::format::{FormatStringPlaceholderData, Placeholder};
use std::mem::MaybeUninit;
use std::ptr::addr_of_mut;

fn any_width() -> cli::Width {
    if kani::any() {
        cli::Width::Fixed(kani::any())
    } else {
        cli::Width::Variable
    }
}

fn any_fill() -> BgFillMethod {
    if kani::any() {
        BgFillMethod::TryAnsiSequence
    } else {
        BgFillMethod::Spaces
    }
}

/// Panel widths as computed in `Config::from`: `new_sbs` followed by `sbs_odd_fix`.
#[kani::proof]
fn c07_panel_geometry() {
    let width = any_width();
    let term: usize = kani::any();
    let method = any_fill();
    let data = SideBySideData::new_sbs(&width, &term);
    let data = ansifill::UseFullPanelWidth::sbs_odd_fix(&width, &method, data);
    let (l, r) = (data[Left].width, data[Right].width);
    // W = the width the two panels have to share
    let (w, fixed) = match width {
        cli::Width::Fixed(w) => (w, true),
        cli::Width::Variable => (term, false),
    };
    assert!(l == w / 2, "left panel is half the configured width, rounded down");
    assert!(l <= r && r - l <= 1, "right panel is as wide as the left, or one column wider");
    let odd_fix = fixed && w % 2 == 1 && method == BgFillMethod::TryAnsiSequence;
    assert!((r - l == 1) == odd_fix, "the extra column goes to the right panel exactly for a fixed odd width filled by ANSI sequence");
    // l + r <= w, stated without overflow
    assert!(r <= w - l, "both panels together never exceed the configured width");
    kani::cover!(odd_fix, "odd fixed width with ANSI fill");
    kani::cover!(fixed && w % 2 == 1 && !odd_fix, "odd fixed width filled with spaces");
    kani::cover!(!fixed && term % 2 == 1, "odd terminal width, variable");
    kani::cover!(w == usize::MAX, "maximal width");
    kani::cover!(w == 0, "zero width");
    kani::cover!(true, "end of harness reached");
}

macro_rules! partial_config {
    ($mem:ident, $lw:expr, $rw:expr, $keep:expr) => {{
        let p = $mem.as_mut_ptr();
        unsafe {
            addr_of_mut!((*p).side_by_side_data).write(SideBySideData::new(Panel { width: $lw }, Panel { width: $rw }));
            addr_of_mut!((*p).keep_plus_minus_markers).write($keep);
            &*p
        }
    }};
}

fn placeholder(prefix_len: usize, suffix_len: usize, width: Option<usize>, has_number: bool, left: bool) -> FormatStringPlaceholderData<'static> {
    FormatStringPlaceholderData {
        prefix_len,
        suffix_len,
        width,
        placeholder: if !has_number {
            None
        } else if left {
            Some(Placeholder::NumberMinus)
        } else {
            Some(Placeholder::NumberPlus)
        },
        ..Default::default()
    }
}

// Reference: width taken by one placeholder in front of the text.
fn model_ph(prefix_len: usize, width: Option<usize>, has_number: bool, hunk_w: usize) -> usize {
    let field = if has_number { hunk_w } else { 0 };
    let w = match width {
        Some(w) => w,
        None => 0,
    };
    prefix_len + if field > w { field } else { w }
}

/// `available_line_width`: per side, panel width minus the gutter of that side minus the marker
/// column, saturating at 0. One placeholder on the left, none on the right.
#[kani::proof]
#[kani::unwind(4)]
fn c07_available_width_1_0() {
    let (lw, rw): (usize, usize) = (kani::any(), kani::any());
    let keep: bool = kani::any();
    let mut mem = MaybeUninit::<Config>::uninit();
    let config: &Config = partial_config!(mem, lw, rw, keep);
    let (pl, sl, hw): (usize, usize, usize) = (kani::any(), kani::any(), kani::any());
    kani::assume(pl < 65536 && sl < 65536 && hw < 65536);
    let w: Option<usize> = if kani::any() { Some(kani::any()) } else { None };
    if let Some(w) = w {
        kani::assume(w < 65536);
    }
    let has_number: bool = kani::any();
    let mut data = LineNumbersData::default();
    data.hunk_max_line_number_width = hw;
    data.format_data = MinusPlus::new(vec![placeholder(pl, sl, w, has_number, true)], Vec::new());
    let out = available_line_width(config, &data);
    let gutter_left = model_ph(pl, w, has_number, hw) + sl;
    let m = keep as usize;
    assert!(out[Left] == lw.saturating_sub(gutter_left).saturating_sub(m), "left text width = panel - gutter - marker column, saturating");
    assert!(out[Right] == rw.saturating_sub(m), "right text width = panel - marker column when there is no gutter");
    assert!(out[Left] <= lw && out[Right] <= rw, "text never wider than its panel");
    kani::cover!(out[Left] == 0 && lw > 0, "gutter swallows the whole panel");
    kani::cover!(out[Left] > 0 && keep && has_number && w.is_some(), "normal case with markers kept");
    kani::cover!(true, "end of harness reached");
    std::mem::forget(data);
}

/// Two placeholders on the right side ("{nm} {np}|"): every prefix counts, only the last suffix.
#[kani::proof]
#[kani::unwind(5)]
fn c07_available_width_0_2() {
    let (lw, rw): (usize, usize) = (kani::any(), kani::any());
    let keep: bool = kani::any();
    let mut mem = MaybeUninit::<Config>::uninit();
    let config: &Config = partial_config!(mem, lw, rw, keep);
    let (p1, s1, p2, s2, hw): (usize, usize, usize, usize, usize) = (kani::any(), kani::any(), kani::any(), kani::any(), kani::any());
    kani::assume(p1 < 65536 && s1 < 65536 && p2 < 65536 && s2 < 65536 && hw < 65536);
    let w1: Option<usize> = if kani::any() { Some(kani::any()) } else { None };
    let w2: Option<usize> = if kani::any() { Some(kani::any()) } else { None };
    if let Some(w) = w1 {
        kani::assume(w < 65536);
    }
    if let Some(w) = w2 {
        kani::assume(w < 65536);
    }
    let (n1, n2): (bool, bool) = (kani::any(), kani::any());
    let mut data = LineNumbersData::default();
    data.hunk_max_line_number_width = hw;
    data.format_data = MinusPlus::new(Vec::new(), vec![placeholder(p1, s1, w1, n1, true), placeholder(p2, s2, w2, n2, false)]);
    let out = available_line_width(config, &data);
    let gutter_right = model_ph(p1, w1, n1, hw) + model_ph(p2, w2, n2, hw) + s2;
    let m = keep as usize;
    assert!(out[Right] == rw.saturating_sub(gutter_right).saturating_sub(m), "right text width with two placeholders: all prefixes and fields, last suffix only");
    assert!(out[Left] == lw.saturating_sub(m), "left text width without gutter");
    kani::cover!(out[Right] > 0 && s1 > 0, "first suffix present but not counted");
    kani::cover!(true, "end of harness reached");
    std::mem::forget(data);
}

// ------------------------------------------------------------------------------------------------
// Side-by-side numbering protocol (C05): ONE row of `paint_minus_and_plus_lines_side_by_side`
// from an arbitrary counter state - the inductive step for side-by-side blocks. Executed for
// real: the row loop, `paint_left_panel_minus_line` / `paint_right_panel_plus_line`,
// `paint_minus_or_plus_panel_line` (choice of the state handed to the number gutter),
// `Painter::paint_line` (increment only for the right panel), `linenumbers_and_styles`, and the
// compensation at the tail of the loop. Cut away by stubs: rendering (`superimpose_style_sections`,
// `pad_panel_line_to_width`) and `format_and_paint_line_numbers`, which is replaced by a monitor
// recording which panel was asked to display which number.
//
// The monitor writes its log into scalar fields of the harness-owned partial `Config` that the
// kernel never reads (a `static mut` written from a stub body makes Kani 0.68 report spurious
// deallocation failures for vectors returned by *other* stubs; reproduced in isolation).
mod sbs_rows {
    use super::super::*;
    use crate::wrapping::WrapConfig;
    use std::mem::MaybeUninit;
    use std::ptr::{addr_of, addr_of_mut};

    // log encoding per call: kind = 1 left/Some, 2 left/None, 3 right/Some, 4 right/None, 5 no panel
    fn stub_format_and_paint<'a>(
        _d: &'a LineNumbersData,
        panel: Option<PanelSide>,
        _styles: MinusPlus<Style>,
        nums: MinusPlus<Option<usize>>,
        c: &'a Config,
    ) -> Vec<ansi_term::ANSIGenericString<'a, str>> {
        let (kind, num) = match panel {
            Some(Left) => match nums[Minus] {
                Some(n) => (1usize, n),
                None => (2, 0),
            },
            Some(Right) => match nums[Plus] {
                Some(n) => (3, n),
                None => (4, 0),
            },
            None => (5, 0),
        };
        unsafe {
            let p = c as *const Config as *mut Config;
            let n = addr_of!((*p).max_line_length).read();
            if n == 0 {
                addr_of_mut!((*p).available_terminal_width).write(kind);
                addr_of_mut!((*p).diff_stat_align_width).write(num);
            } else if n == 1 {
                addr_of_mut!((*p).line_buffer_size).write(kind);
                addr_of_mut!((*p).max_syntax_length).write(num);
            }
            addr_of_mut!((*p).max_line_length).write(n.wrapping_add(1));
        }
        Vec::new()
    }
    fn stub_superimpose(_a: &[(SyntectStyle, &str)], _b: &[(Style, &str)], _t: bool, _n: SyntectStyle) -> Vec<(Style, String)> {
        Vec::new()
    }
    // `State::clone` (derived) restricted to the states that occur in these harnesses - exactly
    // what the derived impl does for them; any other variant is a harness error. The derived impl
    // drags the String / Vec cloning code of the header, grep, blame and merge variants through
    // symbolic execution although it is never executed here.
    fn stub_state_clone(s: &State) -> State {
        match s {
            State::HunkMinus(DiffType::Unified, None) => State::HunkMinus(DiffType::Unified, None),
            State::HunkPlus(DiffType::Unified, None) => State::HunkPlus(DiffType::Unified, None),
            State::HunkZero(DiffType::Unified, None) => State::HunkZero(DiffType::Unified, None),
            State::HunkMinusWrapped => State::HunkMinusWrapped,
            State::HunkPlusWrapped => State::HunkPlusWrapped,
            State::HunkZeroWrapped => State::HunkZeroWrapped,
            _ => {
                assert!(false, "harness: unexpected state");
                State::Unknown
            }
        }
    }
    #[allow(clippy::too_many_arguments)]
    fn stub_pad(_l: &mut String, _e: bool, _i: Option<usize>, _d: &[LineSections<'_, Style>], _h: Option<&[bool]>, _s: &State, _p: PanelSide, _b: BgShouldFill, _c: &Config) {}

    fn cfg(c: &mut MaybeUninit<Config>) -> &Config {
        let p = c.as_mut_ptr();
        let plain = Style::new();
        unsafe {
            addr_of_mut!((*p).line_fill_method).write(BgFillMethod::Spaces);
            addr_of_mut!((*p).wrap_config).write(WrapConfig {
                left_symbol: String::new(),
                right_symbol: String::new(),
                right_prefix_symbol: String::new(),
                use_wrap_right_permille: 0,
                max_lines: 1, // no wrapping inside the harness: wrapped rows are fed in as states
                inline_hint_syntect_style: SyntectStyle::default(),
            });
            addr_of_mut!((*p).keep_plus_minus_markers).write(false);
            addr_of_mut!((*p).line_numbers_style_minusplus).write(MinusPlus::new(plain, plain));
            addr_of_mut!((*p).line_numbers_zero_style).write(plain);
            addr_of_mut!((*p).line_numbers_style_leftright).write(MinusPlus::new(plain, plain));
            addr_of_mut!((*p).side_by_side).write(true);
            addr_of_mut!((*p).true_color).write(true);
            addr_of_mut!((*p).null_syntect_style).write(SyntectStyle::default());
            addr_of_mut!((*p).minus_style).write(plain);
            addr_of_mut!((*p).plus_style).write(plain);
            // monitor log
            addr_of_mut!((*p).max_line_length).write(0);
            addr_of_mut!((*p).available_terminal_width).write(0);
            addr_of_mut!((*p).diff_stat_align_width).write(0);
            addr_of_mut!((*p).line_buffer_size).write(0);
            addr_of_mut!((*p).max_syntax_length).write(0);
            &*p
        }
    }

    // LEFT / RIGHT: 0 = absent, 1 = first row of a line, 2 = continuation row of a wrapped line
    fn row<const LEFT: u8, const RIGHT: u8>() {
        let mut cfg_mem = MaybeUninit::<Config>::uninit();
        let config = cfg(&mut cfg_mem);
        let mut minus: Vec<(String, State)> = Vec::with_capacity(1);
        let mut plus: Vec<(String, State)> = Vec::with_capacity(1);
        let (mut syn_l, mut syn_r) = (Vec::with_capacity(1), Vec::with_capacity(1));
        let (mut dif_l, mut dif_r) = (Vec::with_capacity(1), Vec::with_capacity(1));
        let (mut hom_l, mut hom_r) = (Vec::with_capacity(1), Vec::with_capacity(1));
        if LEFT > 0 {
            minus.push((String::new(), if LEFT == 1 { State::HunkMinus(DiffType::Unified, None) } else { State::HunkMinusWrapped }));
            syn_l.push(Vec::new());
            dif_l.push(Vec::new());
            hom_l.push(RIGHT > 0);
        }
        if RIGHT > 0 {
            plus.push((String::new(), if RIGHT == 1 { State::HunkPlus(DiffType::Unified, None) } else { State::HunkPlusWrapped }));
            syn_r.push(Vec::new());
            dif_r.push(Vec::new());
            hom_r.push(LEFT > 0);
        }
        let alignment = vec![(if LEFT > 0 { Some(0) } else { None }, if RIGHT > 0 { Some(0) } else { None })];
        let (l, r): (usize, usize) = (kani::any(), kani::any());
        kani::assume(l < usize::MAX - 4 && r < usize::MAX - 4);
        let mut data = Some(LineNumbersData::default());
        data.as_mut().unwrap().line_number = MinusPlus::new(l, r);
        let mut out = String::new();
        paint_minus_and_plus_lines_side_by_side(
            LeftRight::new(&minus, &plus),
            LeftRight::new(syn_l, syn_r),
            LeftRight::new(dif_l, dif_r),
            LeftRight::new(hom_l, hom_r),
            alignment,
            &mut data,
            &mut out,
            config,
        );
        let d = data.as_ref().unwrap();
        let l_after = if LEFT == 1 { l + 1 } else { l };
        let r_after = if RIGHT == 1 { r + 1 } else { r };
        assert!(d.line_number[Left] == l_after, "old-file counter advances exactly on the first row of a removed line");
        assert!(d.line_number[Right] == r_after, "new-file counter advances exactly on the first row of an added line");
        let (calls, k0, n0, k1, n1) = unsafe {
            let p = config as *const Config;
            (
                addr_of!((*p).max_line_length).read(),
                addr_of!((*p).available_terminal_width).read(),
                addr_of!((*p).diff_stat_align_width).read(),
                addr_of!((*p).line_buffer_size).read(),
                addr_of!((*p).max_syntax_length).read(),
            )
        };
        assert!(calls == 2, "one number field per panel per row");
        if LEFT == 1 {
            assert!(k0 == 1 && n0 == l, "left panel shows the old-file number of a removed line's first row");
        } else {
            assert!(k0 == 2, "left panel shows no number on continuation rows and beside unpaired added lines");
        }
        if RIGHT == 1 {
            assert!(k1 == 3 && n1 == r, "right panel shows the new-file number of an added line's first row");
        } else {
            assert!(k1 == 4, "right panel shows no number on continuation rows and beside unpaired removed lines");
        }
        kani::cover!(l == 41 && r == 7, "a particular counter state");
        kani::cover!(true, "end of harness reached");
        std::mem::forget(data);
        std::mem::forget(out);
        std::mem::forget(minus);
        std::mem::forget(plus);
    }

    macro_rules! row_harness {
        ($name:ident, $l:expr, $r:expr) => {
            #[kani::proof]
            #[kani::unwind(4)]
            #[kani::stub(crate::features::line_numbers::format_and_paint_line_numbers, stub_format_and_paint)]
            #[kani::stub(crate::paint::superimpose_style_sections, stub_superimpose)]
            #[kani::stub(pad_panel_line_to_width, stub_pad)]
            #[kani::stub(<State as std::clone::Clone>::clone, stub_state_clone)]
            fn $name() {
                row::<$l, $r>();
            }
        };
    }
    row_harness!(c05_sbs_row_first_first, 1, 1);
    row_harness!(c05_sbs_row_first_absent, 1, 0);
    row_harness!(c05_sbs_row_absent_first, 0, 1);
    row_harness!(c05_sbs_row_cont_cont, 2, 2);
    row_harness!(c05_sbs_row_cont_first, 2, 1);
    row_harness!(c05_sbs_row_first_cont, 1, 2);
    row_harness!(c05_sbs_row_cont_absent, 2, 0);
    row_harness!(c05_sbs_row_absent_cont, 0, 2);

    // ---- unchanged lines in side-by-side view: one row of `paint_zero_lines_side_by_side`
    // (through `wrap_zero_block`, which passes a short line through unchanged)
    #[kani::proof]
    #[kani::unwind(4)]
    #[kani::stub(crate::features::line_numbers::format_and_paint_line_numbers, stub_format_and_paint)]
    #[kani::stub(crate::paint::superimpose_style_sections, stub_superimpose)]
    #[kani::stub(pad_panel_line_to_width, stub_pad)]
    #[kani::stub(<State as std::clone::Clone>::clone, stub_state_clone)]
    fn c05_sbs_row_zero() {
        let mut cfg_mem = MaybeUninit::<Config>::uninit();
        let config = cfg(&mut cfg_mem);
        unsafe {
            let p = config as *const Config as *mut Config;
            addr_of_mut!((*p).side_by_side_data).write(SideBySideData::new(Panel { width: 40 }, Panel { width: 40 }));
            addr_of_mut!((*p).zero_style).write(Style::new());
        }
        let (l, r): (usize, usize) = (kani::any(), kani::any());
        kani::assume(l < usize::MAX - 4 && r < usize::MAX - 4);
        let mut data = LineNumbersData::default();
        data.line_number = MinusPlus::new(l, r);
        let mut out = String::new();
        let mut d = Some(&mut data);
        paint_zero_lines_side_by_side("\n", vec![Vec::new()], vec![Vec::new()], &mut out, config, &mut d, None, BgShouldFill::With(BgFillMethod::Spaces));
        assert!(data.line_number[Left] == l + 1 && data.line_number[Right] == r + 1, "an unchanged line advances both counters by one");
        let (calls, k0, n0, k1, n1) = unsafe {
            let p = config as *const Config;
            (
                addr_of!((*p).max_line_length).read(),
                addr_of!((*p).available_terminal_width).read(),
                addr_of!((*p).diff_stat_align_width).read(),
                addr_of!((*p).line_buffer_size).read(),
                addr_of!((*p).max_syntax_length).read(),
            )
        };
        assert!(calls == 2, "one number field per panel");
        assert!(k0 == 1 && n0 == l, "left panel of an unchanged line shows its old-file number");
        assert!(k1 == 3 && n1 == r, "right panel of an unchanged line shows its new-file number");
        kani::cover!(l == 9 && r == 99, "a particular counter state");
        kani::cover!(true, "end of harness reached");
        std::mem::forget(data);
        std::mem::forget(out);
    }

    // ---- unified view: one line of `Painter::paint_lines`
    // monitor for the two-column gutter: kind 5, both numbers (usize::MAX encodes "blank")
    fn stub_format_and_paint_unified<'a>(
        _d: &'a LineNumbersData,
        panel: Option<PanelSide>,
        _styles: MinusPlus<Style>,
        nums: MinusPlus<Option<usize>>,
        c: &'a Config,
    ) -> Vec<ansi_term::ANSIGenericString<'a, str>> {
        unsafe {
            let p = c as *const Config as *mut Config;
            let n = addr_of!((*p).max_line_length).read();
            if n == 0 {
                addr_of_mut!((*p).line_buffer_size).write(if panel.is_none() { 5 } else { 9 });
                addr_of_mut!((*p).diff_stat_align_width).write(match nums[Minus] {
                    Some(n) => n,
                    None => usize::MAX,
                });
                addr_of_mut!((*p).max_syntax_length).write(match nums[Plus] {
                    Some(n) => n,
                    None => usize::MAX,
                });
            }
            addr_of_mut!((*p).max_line_length).write(n.wrapping_add(1));
        }
        Vec::new()
    }
    fn stub_fill<'p>(_d: &[(Style, &str)], _h: Option<bool>, _s: &State, _b: BgShouldFill, _c: &Config) -> (Option<BgFillMethod>, Style)
    where
        'p: 'p, // the original is an associated function of `impl<'p> Painter<'p>`
    {
        (None, Style::new())
    }

    // KIND: 0 removed, 1 unchanged, 2 added
    fn unified_line<const KIND: u8>() {
        let mut cfg_mem = MaybeUninit::<Config>::uninit();
        let config = cfg(&mut cfg_mem);
        unsafe {
            let p = config as *const Config as *mut Config;
            addr_of_mut!((*p).side_by_side).write(false);
            addr_of_mut!((*p).line_numbers).write(true);
            addr_of_mut!((*p).zero_style).write(Style::new());
        }
        let state = match KIND {
            0 => State::HunkMinus(DiffType::Unified, None),
            1 => State::HunkZero(DiffType::Unified, None),
            _ => State::HunkPlus(DiffType::Unified, None),
        };
        let lines: Vec<(String, State)> = vec![(String::new(), state)];
        let syn: Vec<LineSections<SyntectStyle>> = vec![Vec::new()];
        let dif: Vec<LineSections<Style>> = vec![Vec::new()];
        let (l, r): (usize, usize) = (kani::any(), kani::any());
        kani::assume(l < usize::MAX - 4 && r < usize::MAX - 4);
        let mut data = LineNumbersData::default();
        data.line_number = MinusPlus::new(l, r);
        let mut out = String::new();
        let mut d = Some(&mut data);
        Painter::paint_lines(&lines, &syn, &dif, &[false], &mut out, config, &mut d, None, BgShouldFill::With(BgFillMethod::Spaces));
        let (calls, kind, nm, np) = unsafe {
            let p = config as *const Config;
            (
                addr_of!((*p).max_line_length).read(),
                addr_of!((*p).line_buffer_size).read(),
                addr_of!((*p).diff_stat_align_width).read(),
                addr_of!((*p).max_syntax_length).read(),
            )
        };
        assert!(calls == 1 && kind == 5, "one two-column number gutter per line in unified view");
        let (want_m, want_p, l2, r2) = match KIND {
            0 => (l, usize::MAX, l + 1, r),
            1 => (l, r, l + 1, r + 1),
            _ => (usize::MAX, r, l, r + 1),
        };
        assert!(nm == want_m && np == want_p, "unified view: removed lines show the old number, added lines the new one, unchanged lines both");
        assert!(data.line_number[Left] == l2 && data.line_number[Right] == r2, "unified view: counters advance for the files the line belongs to");
        kani::cover!(l == 3 && r == 5, "a particular counter state");
        kani::cover!(true, "end of harness reached");
        std::mem::forget(data);
        std::mem::forget(out);
        std::mem::forget(lines);
    }

    macro_rules! unified_harness {
        ($name:ident, $k:expr) => {
            #[kani::proof]
            #[kani::unwind(4)]
            #[kani::stub(crate::features::line_numbers::format_and_paint_line_numbers, stub_format_and_paint_unified)]
            #[kani::stub(crate::paint::superimpose_style_sections, stub_superimpose)]
            #[kani::stub(crate::paint::Painter::get_should_right_fill_background_color_and_fill_style, stub_fill)]
            #[kani::stub(<State as std::clone::Clone>::clone, stub_state_clone)]
            fn $name() {
                unified_line::<$k>();
            }
        };
    }
    unified_harness!(c05_unified_line_minus, 0);
    unified_harness!(c05_unified_line_zero, 1);
    unified_harness!(c05_unified_line_plus, 2);

    // ---- unified view, background filled with spaces up to the terminal width
    // (`--line-fill-method spaces`): the number of spaces is computed from the terminal width and
    // the measured width of the painted line; a line wider than the terminal must not underflow
    // (C03: "a styled context line wider than the terminal").
    fn stub_fill_spaces<'p>(_d: &[(Style, &str)], _h: Option<bool>, _s: &State, _b: BgShouldFill, _c: &Config) -> (Option<BgFillMethod>, Style)
    where
        'p: 'p,
    {
        (Some(BgFillMethod::Spaces), Style::new())
    }
    // measured width of the painted line: any value (the ANSI iterator is out of reach); the
    // harness chooses it through the scratch field `max_syntax_length`... which the unified monitor
    // also uses, so this harness has its own monitor-free stub of the number gutter
    static WIDTH_HINT: usize = 0;
    fn stub_measure(_s: &str) -> usize {
        let _ = WIDTH_HINT;
        kani::any()
    }
    fn stub_plain<'a>(_d: &'a LineNumbersData, _panel: Option<PanelSide>, _styles: MinusPlus<Style>, _nums: MinusPlus<Option<usize>>, _c: &'a Config) -> Vec<ansi_term::ANSIGenericString<'a, str>> {
        Vec::new()
    }

    #[kani::proof]
    #[kani::unwind(4)]
    #[kani::stub(crate::features::line_numbers::format_and_paint_line_numbers, stub_plain)]
    #[kani::stub(crate::paint::superimpose_style_sections, stub_superimpose)]
    #[kani::stub(crate::paint::Painter::get_should_right_fill_background_color_and_fill_style, stub_fill_spaces)]
    #[kani::stub(crate::ansi::measure_text_width, stub_measure)]
    #[kani::stub(<State as std::clone::Clone>::clone, stub_state_clone)]
    fn c03_unified_line_fill_spaces() {
        let mut cfg_mem = MaybeUninit::<Config>::uninit();
        let config = cfg(&mut cfg_mem);
        let term: usize = kani::any();
        kani::assume(term <= 4); // the spaces are really allocated: keep the count tiny; the measured width is any usize
        unsafe {
            let p = config as *const Config as *mut Config;
            addr_of_mut!((*p).side_by_side).write(false);
            addr_of_mut!((*p).line_numbers).write(true);
            addr_of_mut!((*p).zero_style).write(Style::new());
            addr_of_mut!((*p).available_terminal_width).write(term);
        }
        let lines: Vec<(String, State)> = vec![(String::new(), State::HunkZero(DiffType::Unified, None))];
        let syn: Vec<LineSections<SyntectStyle>> = vec![Vec::new()];
        let dif: Vec<LineSections<Style>> = vec![Vec::new()];
        let mut data = LineNumbersData::default();
        let mut out = String::new();
        let mut d = Some(&mut data);
        Painter::paint_lines(&lines, &syn, &dif, &[false], &mut out, config, &mut d, None, BgShouldFill::With(BgFillMethod::Spaces));
        assert!(out.len() <= term + 1, "at most terminal-width spaces and the newline are emitted for an empty line");
        kani::cover!(out.len() == 1, "nothing to fill (line at least as wide as the terminal)");
        kani::cover!(out.len() == 5, "four spaces filled");
        kani::cover!(true, "end of harness reached");
        std::mem::forget(data);
        std::mem::forget(out);
        std::mem::forget(lines);
    }

    // ---- C07: "the left panel is padded (or truncated) to exactly the panel width", so that the
    // right panel starts at the same column on every row. The real `pad_panel_line_to_width` +
    // `get_right_fill_style_for_panel` on a half line of 3 ASCII columns, for every panel width
    // 0..=6. `ansi::measure_text_width` and `ansi::truncate_str` (ANSI iterator, graphemes: out of
    // reach) are replaced by their behaviour on plain ASCII text: width = byte length, truncation =
    // the first `display_width` bytes.
    fn stub_measure_ascii(s: &str) -> usize {
        s.len()
    }
    fn stub_truncate_ascii<'a>(s: &'a str, display_width: usize, _tail: &str) -> std::borrow::Cow<'a, str> {
        let n = if display_width < s.len() { display_width } else { s.len() };
        std::borrow::Cow::Borrowed(&s[..n])
    }

    // `" ".repeat(n)` with symbolic n is a symbolic-size allocation (fatal for CBMC): same result
    // from a buffer of fixed capacity
    fn stub_repeat(s: &str, n: usize) -> String {
        assert!(s.len() == 1 && n <= 8, "harness: padding with single blanks, at most 8");
        let mut out = String::with_capacity(8);
        let c = s.as_bytes()[0] as char;
        let mut i = 0;
        while i < 8 {
            if i < n {
                out.push(c);
            }
            i += 1;
        }
        out
    }

    fn pad_panel<const LEFT: bool, const EMPTY: bool>() {
        let mut cfg_mem = MaybeUninit::<Config>::uninit();
        let config = cfg(&mut cfg_mem);
        let w_panel: usize = kani::any();
        kani::assume(w_panel <= 6);
        unsafe {
            let p = config as *const Config as *mut Config;
            addr_of_mut!((*p).side_by_side_data).write(SideBySideData::new(Panel { width: w_panel }, Panel { width: w_panel }));
            addr_of_mut!((*p).null_style).write(Style::new());
            addr_of_mut!((*p).truncation_symbol).write(String::new());
        }
        let mut line = if EMPTY { String::new() } else { "abc".to_string() };
        let text = if EMPTY { 0 } else { 3 };
        let state = State::HunkMinus(DiffType::Unified, None);
        // the half row beside a line that exists only in the other panel (line_index None), or
        // (EMPTY) an empty-by-construction half row
        pad_panel_line_to_width(&mut line, EMPTY, None, &[], None, &state, if LEFT { Left } else { Right }, BgShouldFill::With(BgFillMethod::TryAnsiSequence), config);
        if LEFT {
            assert!(line.len() == w_panel, "the left half row is exactly as wide as the panel: padded with spaces or truncated");
            let keep = if text < w_panel { text } else { w_panel };
            let b = line.as_bytes();
            let orig = b"abc";
            for i in 0..3 {
                if i < keep {
                    assert!(b[i] == orig[i], "the text is kept up to the panel width");
                }
            }
            for i in 0..6 {
                if i >= keep && i < w_panel {
                    assert!(b[i] == b' ', "the rest of the panel is blank");
                }
            }
        } else {
            // nothing forces the right half row to a width: it is only cut when too wide
            assert!(line.len() == if text < w_panel { text } else { w_panel }, "the right half row is cut to the panel width, not padded");
        }
        kani::cover!(w_panel == 6, "padding needed");
        kani::cover!(w_panel == 2 || EMPTY, "truncation needed");
        kani::cover!(true, "end of harness reached");
        std::mem::forget(line);
        std::mem::forget(state);
    }

    macro_rules! pad_harness {
        ($name:ident, $left:expr, $empty:expr) => {
            #[kani::proof]
            #[kani::unwind(9)]
            #[kani::stub(crate::ansi::measure_text_width, stub_measure_ascii)]
            #[kani::stub(crate::ansi::truncate_str, stub_truncate_ascii)]
            #[kani::stub(str::repeat, stub_repeat)]
            fn $name() {
                pad_panel::<$left, $empty>();
            }
        };
    }
    pad_harness!(c07_pad_left_panel_text, true, false);
    pad_harness!(c07_pad_left_panel_empty, true, true);
    pad_harness!(c07_pad_right_panel_text, false, false);
}
