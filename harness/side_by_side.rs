// Kani harnesses for src/features/side_by_side.rs (injected as `mod verif_kani`).
// Property C07 (panel geometry, available text width), C03 (no overflow / underflow).
use super::*;
use crate::format::{FormatStringPlaceholderData, Placeholder};
use std::mem::MaybeUninit;
use std::ptr::addr_of_mut;

fn any_width() -> cli::Width {
    if kani::any() {
        cli::Width::Fixed(kani::any())
    } else {
        cli::Width::Variable
    }
}

fn any_fill() -> BgFillMethod {
    if kani::any() {
        BgFillMethod::TryAnsiSequence
    } else {
        BgFillMethod::Spaces
    }
}

/// Panel widths as computed in `Config::from`: `new_sbs` followed by `sbs_odd_fix`.
#[kani::proof]
fn c07_panel_geometry() {
    let width = any_width();
    let term: usize = kani::any();
    let method = any_fill();
    let data = SideBySideData::new_sbs(&width, &term);
    let data = ansifill::UseFullPanelWidth::sbs_odd_fix(&width, &method, data);
    let (l, r) = (data[Left].width, data[Right].width);
    // W = the width the two panels have to share
    let (w, fixed) = match width {
        cli::Width::Fixed(w) => (w, true),
        cli::Width::Variable => (term, false),
    };
    assert!(l == w / 2, "left panel is half the configured width, rounded down");
    assert!(l <= r && r - l <= 1, "right panel is as wide as the left, or one column wider");
    let odd_fix = fixed && w % 2 == 1 && method == BgFillMethod::TryAnsiSequence;
    assert!((r - l == 1) == odd_fix, "the extra column goes to the right panel exactly for a fixed odd width filled by ANSI sequence");
    // l + r <= w, stated without overflow
    assert!(r <= w - l, "both panels together never exceed the configured width");
    kani::cover!(odd_fix, "odd fixed width with ANSI fill");
    kani::cover!(fixed && w % 2 == 1 && !odd_fix, "odd fixed width filled with spaces");
    kani::cover!(!fixed && term % 2 == 1, "odd terminal width, variable");
    kani::cover!(w == usize::MAX, "maximal width");
    kani::cover!(w == 0, "zero width");
    kani::cover!(true, "end of harness reached");
}

macro_rules! partial_config {
    ($mem:ident, $lw:expr, $rw:expr, $keep:expr) => {{
        let p = $mem.as_mut_ptr();
        unsafe {
            addr_of_mut!((*p).side_by_side_data).write(SideBySideData::new(Panel { width: $lw }, Panel { width: $rw }));
            addr_of_mut!((*p).keep_plus_minus_markers).write($keep);
            &*p
        }
    }};
}

fn placeholder(prefix_len: usize, suffix_len: usize, width: Option<usize>, has_number: bool, left: bool) -> FormatStringPlaceholderData<'static> {
    FormatStringPlaceholderData {
        prefix_len,
        suffix_len,
        width,
        placeholder: if !has_number {
            None
        } else if left {
            Some(Placeholder::NumberMinus)
        } else {
            Some(Placeholder::NumberPlus)
        },
        ..Default::default()
    }
}

// Reference: width taken by one placeholder in front of the text.
fn model_ph(prefix_len: usize, width: Option<usize>, has_number: bool, hunk_w: usize) -> usize {
    let field = if has_number { hunk_w } else { 0 };
    let w = match width {
        Some(w) => w,
        None => 0,
    };
    prefix_len + if field > w { field } else { w }
}

/// `available_line_width`: per side, panel width minus the gutter of that side minus the marker
/// column, saturating at 0. One placeholder on the left, none on the right.
#[kani::proof]
#[kani::unwind(4)]
fn c07_available_width_1_0() {
    let (lw, rw): (usize, usize) = (kani::any(), kani::any());
    let keep: bool = kani::any();
    let mut mem = MaybeUninit::<Config>::uninit();
    let config: &Config = partial_config!(mem, lw, rw, keep);
    let (pl, sl, hw): (usize, usize, usize) = (kani::any(), kani::any(), kani::any());
    kani::assume(pl < 65536 && sl < 65536 && hw < 65536);
    let w: Option<usize> = if kani::any() { Some(kani::any()) } else { None };
    if let Some(w) = w {
        kani::assume(w < 65536);
    }
    let has_number: bool = kani::any();
    let mut data = LineNumbersData::default();
    data.hunk_max_line_number_width = hw;
    data.format_data = MinusPlus::new(vec![placeholder(pl, sl, w, has_number, true)], Vec::new());
    let out = available_line_width(config, &data);
    let gutter_left = model_ph(pl, w, has_number, hw) + sl;
    let m = keep as usize;
    assert!(out[Left] == lw.saturating_sub(gutter_left).saturating_sub(m), "left text width = panel - gutter - marker column, saturating");
    assert!(out[Right] == rw.saturating_sub(m), "right text width = panel - marker column when there is no gutter");
    assert!(out[Left] <= lw && out[Right] <= rw, "text never wider than its panel");
    kani::cover!(out[Left] == 0 && lw > 0, "gutter swallows the whole panel");
    kani::cover!(out[Left] > 0 && keep && has_number && w.is_some(), "normal case with markers kept");
    kani::cover!(true, "end of harness reached");
    std::mem::forget(data);
}

/// Two placeholders on the right side ("{nm} {np}|"): every prefix counts, only the last suffix.
#[kani::proof]
#[kani::unwind(5)]
fn c07_available_width_0_2() {
    let (lw, rw): (usize, usize) = (kani::any(), kani::any());
    let keep: bool = kani::any();
    let mut mem = MaybeUninit::<Config>::uninit();
    let config: &Config = partial_config!(mem, lw, rw, keep);
    let (p1, s1, p2, s2, hw): (usize, usize, usize, usize, usize) = (kani::any(), kani::any(), kani::any(), kani::any(), kani::any());
    kani::assume(p1 < 65536 && s1 < 65536 && p2 < 65536 && s2 < 65536 && hw < 65536);
    let w1: Option<usize> = if kani::any() { Some(kani::any()) } else { None };
    let w2: Option<usize> = if kani::any() { Some(kani::any()) } else { None };
    if let Some(w) = w1 {
        kani::assume(w < 65536);
    }
    if let Some(w) = w2 {
        kani::assume(w < 65536);
    }
    let (n1, n2): (bool, bool) = (kani::any(), kani::any());
    let mut data = LineNumbersData::default();
    data.hunk_max_line_number_width = hw;
    data.format_data = MinusPlus::new(Vec::new(), vec![placeholder(p1, s1, w1, n1, true), placeholder(p2, s2, w2, n2, false)]);
    let out = available_line_width(config, &data);
    let gutter_right = model_ph(p1, w1, n1, hw) + model_ph(p2, w2, n2, hw) + s2;
    let m = keep as usize;
    assert!(out[Right] == rw.saturating_sub(gutter_right).saturating_sub(m), "right text width with two placeholders: all prefixes and fields, last suffix only");
    assert!(out[Left] == lw.saturating_sub(m), "left text width without gutter");
    kani::cover!(out[Right] > 0 && s1 > 0, "first suffix present but not counted");
    kani::cover!(true, "end of harness reached");
    std::mem::forget(data);
}

// ------------------------------------------------------------------------------------------------
// Side-by-side numbering protocol (C05): one row of `paint_minus_and_plus_lines_side_by_side`
// from an arbitrary counter state, with rendering cut away (superimpose / padding stubbed to
// nothing) and a monitor in place of `format_and_paint_line_numbers` that records which panel was
// asked to display which number.
mod sbs_rows {
    use super::super::*;
    use crate::wrapping::WrapConfig;
    use std::mem::MaybeUninit;
    use std::ptr::addr_of_mut;

    pub static mut LOG_SIDE: [u8; 8] = [0; 8];
    pub static mut LOG_NUM: [Option<usize>; 8] = [None; 8];
    pub static mut NLOG: usize = 0;

    pub fn stub_format_and_paint<'a>(
        _d: &'a LineNumbersData,
        panel: Option<PanelSide>,
        _styles: MinusPlus<Style>,
        nums: MinusPlus<Option<usize>>,
        _c: &'a Config,
    ) -> Vec<ansi_term::ANSIGenericString<'a, str>> {
        unsafe {
            if NLOG < 8 {
                match panel {
                    Some(Left) => {
                        LOG_SIDE[NLOG] = 1;
                        LOG_NUM[NLOG] = nums[Minus];
                    }
                    Some(Right) => {
                        LOG_SIDE[NLOG] = 2;
                        LOG_NUM[NLOG] = nums[Plus];
                    }
                    None => {
                        LOG_SIDE[NLOG] = 3;
                    }
                }
                NLOG += 1;
            }
        }
        Vec::new()
    }
    pub fn stub_superimpose(_a: &[(SyntectStyle, &str)], _b: &[(Style, &str)], _t: bool, _n: SyntectStyle) -> Vec<(Style, String)> {
        Vec::new()
    }
    #[allow(clippy::too_many_arguments)]
    pub fn stub_pad(_l: &mut String, _e: bool, _i: Option<usize>, _d: &[LineSections<'_, Style>], _h: Option<&[bool]>, _s: &State, _p: PanelSide, _b: BgShouldFill, _c: &Config) {}

    pub fn cfg(c: &mut MaybeUninit<Config>) -> &Config {
        let p = c.as_mut_ptr();
        let plain = Style::new();
        unsafe {
            addr_of_mut!((*p).line_fill_method).write(BgFillMethod::Spaces);
            addr_of_mut!((*p).wrap_config).write(WrapConfig {
                left_symbol: String::new(),
                right_symbol: String::new(),
                right_prefix_symbol: String::new(),
                use_wrap_right_permille: 0,
                max_lines: 1,
                inline_hint_syntect_style: SyntectStyle::default(),
            });
            addr_of_mut!((*p).keep_plus_minus_markers).write(false);
            addr_of_mut!((*p).line_numbers_style_minusplus).write(MinusPlus::new(plain, plain));
            addr_of_mut!((*p).line_numbers_zero_style).write(plain);
            addr_of_mut!((*p).line_numbers_style_leftright).write(MinusPlus::new(plain, plain));
            addr_of_mut!((*p).side_by_side).write(true);
            addr_of_mut!((*p).true_color).write(true);
            addr_of_mut!((*p).null_syntect_style).write(SyntectStyle::default());
            addr_of_mut!((*p).minus_style).write(plain);
            addr_of_mut!((*p).plus_style).write(plain);
            &*p
        }
    }

    #[kani::proof]
    #[kani::unwind(4)]
    #[kani::stub(crate::features::line_numbers::format_and_paint_line_numbers, stub_format_and_paint)]
    #[kani::stub(crate::paint::superimpose_style_sections, stub_superimpose)]
    #[kani::stub(pad_panel_line_to_width, stub_pad)]
    fn c05_sbs_row_paired() {
        let mut cfg_mem = MaybeUninit::<Config>::uninit();
        let config = cfg(&mut cfg_mem);
        let minus: Vec<(String, State)> = vec![(String::new(), State::HunkMinus(DiffType::Unified, None))];
        let plus: Vec<(String, State)> = vec![(String::new(), State::HunkPlus(DiffType::Unified, None))];
        let syn = LeftRight::new(vec![Vec::new()], vec![Vec::new()]);
        let dif = LeftRight::new(vec![Vec::new()], vec![Vec::new()]);
        let hom = LeftRight::new(vec![true], vec![true]);
        let alignment = vec![(Some(0), Some(0))];
        let (l, r): (usize, usize) = (kani::any(), kani::any());
        kani::assume(l < usize::MAX - 4 && r < usize::MAX - 4);
        let mut data = Some(LineNumbersData::default());
        data.as_mut().unwrap().line_number = MinusPlus::new(l, r);
        let mut out = String::new();
        paint_minus_and_plus_lines_side_by_side(LeftRight::new(&minus, &plus), syn, dif, hom, alignment, &mut data, &mut out, config);
        let d = data.as_ref().unwrap();
        assert!(d.line_number[Left] == l + 1, "paired row advances the old-file counter by one");
        assert!(d.line_number[Right] == r + 1, "paired row advances the new-file counter by one");
        unsafe {
            assert!(NLOG == 2, "two number fields per row");
            assert!(LOG_SIDE[0] == 1 && LOG_NUM[0] == Some(l), "left panel shows the old-file number");
            assert!(LOG_SIDE[1] == 2 && LOG_NUM[1] == Some(r), "right panel shows the new-file number");
        }
        kani::cover!(true, "end of harness reached");
        std::mem::forget(data);
        std::mem::forget(out);
        std::mem::forget(minus);
        std::mem::forget(plus);
    }
}
